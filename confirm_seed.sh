#!/bin/bash
# confirm_seed.sh <property-id> [suffix]: confirm a seeded change delivered in /tmp/seed_out/<id><suffix>
# (patch.diff, demo_test.go) inside its scratch worktree /tmp/seedwt/<id><suffix>:
#   1. with the patch the repository's own suite passes (demo moved away)
#   2. with the patch the demo fails   3. without the patch the demo passes
# then run the property's quick check against a patched scratch copy, store everything under
# /verif/seeded/<id><suffix>/ and remove the worktree.
set -u
ID=$1; SFX=${2:-}; N=$ID$SFX
WT=/tmp/seedwt/$N; OUT=/tmp/seed_out/$N
export GOFLAGS=-mod=mod GOPROXY=off GOSUMDB=off GOTOOLCHAIN=local
cd $WT || exit 2
DEMO=$(git status --porcelain | grep '^??' | awk '{print $2}' | grep '_test.go$' | head -1)
[ -z "$DEMO" ] && { echo "no demo file in worktree"; exit 2; }
PKG=./$(dirname $DEMO)
git diff > /tmp/confirm_$N.diff
[ -s /tmp/confirm_$N.diff ] || { echo "worktree has no patch applied"; exit 2; }
mv $DEMO /tmp/confirm_$N.demo
if go build ./... && go test -vet=off -count=1 ./... > /tmp/confirm_$N.suite 2>&1; then SUITE=pass; else SUITE=FAIL; fi
mv /tmp/confirm_$N.demo $DEMO
TESTS=$(grep -o '^func Test[A-Za-z0-9_]*' $DEMO | sed 's/func //' | paste -sd'|')
if go test -vet=off -count=1 -run "^($TESTS)\$" $PKG > /tmp/confirm_$N.with 2>&1; then WITH=pass; else WITH=FAIL; fi
git apply -R /tmp/confirm_$N.diff
if go test -vet=off -count=1 -run "^($TESTS)\$" $PKG > /tmp/confirm_$N.without 2>&1; then WITHOUT=pass; else WITHOUT=FAIL; fi
git apply /tmp/confirm_$N.diff
echo "seed $N: suite-with-patch=$SUITE demo-with-patch=$WITH demo-without-patch=$WITHOUT (demo $DEMO tests $TESTS)"
if [ "$SUITE" = pass ] && [ "$WITH" = FAIL ] && [ "$WITHOUT" = pass ]; then
  mkdir -p /verif/seeded/$N
  cp /tmp/confirm_$N.diff /verif/seeded/$N/patch.diff
  cp $DEMO /verif/seeded/$N/demo_test.go
  [ -f $OUT/README.md ] && cp $OUT/README.md /verif/seeded/$N/README.md
  cd /verif && ./sens.sh $ID /verif/seeded/$N/patch.diff > /tmp/confirm_$N.check 2>&1
  RC=$(grep -o 'rc=[0-9]*' /tmp/confirm_$N.check | tail -1)
  grep -E "failure:|SENS" /tmp/confirm_$N.check | cut -c1-300
  python3 - "$N" "$ID" "$DEMO" "$RC" <<'PY'
import json,sys,re
n,pid,demo,rc=sys.argv[1:5]
fl=[l.strip() for l in open('/tmp/confirm_%s.check'%n) if l.strip().startswith('failure:')]
meta=dict(property=pid, demo_file_belongs_in=demo, confirmed=dict(suite_with_patch="pass", demo_with_patch="fails", demo_without_patch="passes"),
  commands=["go build ./... && go test -vet=off -count=1 ./... (patch applied, demo moved away)", "go test -run <demo tests> <pkg> with and without the patch", "./sens.sh %s seeded/%s/patch.diff (quick check against a patched scratch copy)"%(pid,n)],
  quick_check_result=rc, quick_check_failure=fl[:2], needs_to_manifest="see README.md")
json.dump(meta,open('/verif/seeded/%s/meta.json'%n,'w'),indent=1)
PY
  echo "stored /verif/seeded/$N"
else
  echo "NOT CONFIRMED; see /tmp/confirm_$N.*"
fi
git -C /repo worktree remove --force $WT && echo "worktree removed"
