#!/bin/bash
# sweep.sh [first-seed] [count] [ids...]: run the quick tier of the given (default: all claimed)
# properties at several seeds; prints every run that did not exit 0.
F=${1:-101}; N=${2:-10}; shift 2 2>/dev/null
IDS="$@"; [ -z "$IDS" ] && IDS=$(python3 -c "import json;print(' '.join(c['property_id'] for c in json.load(open('MANIFEST.json'))['checks']))")
export VERIF_WORK=${VERIF_WORK:-$(pwd)/work/sweep} VERIF_NOEVIDENCE=1
bad=0
for id in $IDS; do
  for s in $(seq $F $((F+N-1))); do
    VERIF_SEED=$s ./run_check.py $id --tier quick > /tmp/sweep_$id.log 2>&1; rc=$?
    if [ $rc != 0 ]; then bad=$((bad+1)); echo "== $id seed=$s rc=$rc"; grep -E "failure:|VIOLATION|INCONCLUSIVE" /tmp/sweep_$id.log | head -3 | cut -c1-300; f=$(grep -m1 VIOLATION /tmp/sweep_$id.log | sed 's/.*replay=//'); [ -n "$f" ] && cp "$f" /tmp/sweepfail_${id}_$s.json; fi
  done
  echo "-- $id done"
done
echo "SWEEP bad=$bad"
