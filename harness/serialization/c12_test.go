package serialization

// C12: checkpoint serialisation round-trips every supported value or fails loudly.
// Generated input: (type, value) pairs over the recursive universe of registered types.
// Oracle: Unmarshal(Marshal(v)) deep-equals v with identical dynamic type (nil and empty
// containers equal), or Marshal/Unmarshal returns an error; never a panic.

import (
	"fmt"
	"math"
	"reflect"
	"strings"
	"testing"
	"unicode/utf8"

	"github.com/cloudwego/eino/internal/vkit"
	rapid "github.com/cloudwego/eino/internal/vrapid"
)

// ---- registered harness types -------------------------------------------------

type VNInt int
type VNStr string
type VNBool bool
type VNF64 float64
type VNU8 uint8

type VNamer interface{ VName() string }

func (s VNStr) VName() string { return string(s) }
func (s *VSA) VName() string  { return s.S }

type VSA struct {
	I   int
	S   string
	B   bool
	F   float64
	U8  uint8
	I64 int64
	U64 uint64
	F32 float32
	NI  VNInt
	NS  VNStr
}

type VSK struct { // comparable: usable as map key; map keys are written as plain JSON, where omitempty members of zero value are left out
	A int    `json:"a,omitempty"`
	B string `json:"b,omitempty"`
}

type VSB struct {
	P   *int
	PP  **string
	PS  *VSA
	PPS **VSA
	L   []int
	LS  []string
	M   map[string]int
	A   any
	N   VSA
	X   []any
	MA  map[string]any
	Nm  VNamer
}

type VSList struct {
	V    int
	Next *VSList
}

type VSC struct {
	MK  map[VNStr]*VSA
	LP  []*VSA
	LPP []**int
	MP  map[int]**VSA
	KB  map[bool]string
	KF  map[float64]int
	KS  map[VSK]int
	KU  map[uint64]VNInt
	KI8 map[int8]any
	LN  []VNamer
	MN  map[string]VNamer
	LB  []byte
	LL  *VSList
	E   VSE
	PE  *VSE
}

type VSE struct{}

// VST: plain fields only, renamed by json tags (as state structs commonly are): the tags are none of the
// serialiser's business
type VST struct {
	UserID string `json:"user_id"`
	Tokens int    `json:"prompt_tokens"`
	Flag   bool   `json:"flag_x"`
	Plain  float64
	NS     VNStr `json:"finish_reason"`
}

type vUnregistered struct{ A int }

func init() {
	must := func(err error) {
		if err != nil {
			panic(err)
		}
	}
	must(GenericRegister[VNInt]("v_nint"))
	must(GenericRegister[VNStr]("v_nstr"))
	must(GenericRegister[VNBool]("v_nbool"))
	must(GenericRegister[VNF64]("v_nf64"))
	must(GenericRegister[VNU8]("v_nu8"))
	must(GenericRegister[VNamer]("v_namer"))
	must(GenericRegister[VSA]("v_sa"))
	must(GenericRegister[VSK]("v_sk"))
	must(GenericRegister[VSB]("v_sb"))
	must(GenericRegister[VSList]("v_slist"))
	must(GenericRegister[VSC]("v_sc"))
	must(GenericRegister[VSE]("v_se"))
	must(GenericRegister[VST]("v_st"))
}

// ---- type and value descriptions (the replayable case) -------------------------

// TD describes a type of the universe.
type TD struct {
	K   string `json:"k"`             // base name, or ptr / slice / map / array
	E   *TD    `json:"e,omitempty"`   // element / pointee
	Key *TD    `json:"key,omitempty"` // map key
	N   int    `json:"n,omitempty"`   // array length
}

var baseTypes = map[string]reflect.Type{
	"int": reflect.TypeOf(int(0)), "int8": reflect.TypeOf(int8(0)), "int16": reflect.TypeOf(int16(0)),
	"int32": reflect.TypeOf(int32(0)), "int64": reflect.TypeOf(int64(0)),
	"uint": reflect.TypeOf(uint(0)), "uint8": reflect.TypeOf(uint8(0)), "uint16": reflect.TypeOf(uint16(0)),
	"uint32": reflect.TypeOf(uint32(0)), "uint64": reflect.TypeOf(uint64(0)),
	"float32": reflect.TypeOf(float32(0)), "float64": reflect.TypeOf(float64(0)),
	"bool": reflect.TypeOf(false), "string": reflect.TypeOf(""),
	"VNInt": reflect.TypeOf(VNInt(0)), "VNStr": reflect.TypeOf(VNStr("")), "VNBool": reflect.TypeOf(VNBool(false)),
	"VNF64": reflect.TypeOf(VNF64(0)), "VNU8": reflect.TypeOf(VNU8(0)),
	"VSA": reflect.TypeOf(VSA{}), "VSK": reflect.TypeOf(VSK{}), "VSB": reflect.TypeOf(VSB{}),
	"VSList": reflect.TypeOf(VSList{}), "VSC": reflect.TypeOf(VSC{}), "VSE": reflect.TypeOf(VSE{}), "VST": reflect.TypeOf(VST{}),
	"any":    reflect.TypeOf((*any)(nil)).Elem(),
	"VNamer": reflect.TypeOf((*VNamer)(nil)).Elem(),
	// outside the universe
	"unregistered": reflect.TypeOf(vUnregistered{}),
	"complex128":   reflect.TypeOf(complex128(0)),
}

var scalarNames = []string{"int", "int8", "int16", "int32", "int64", "uint", "uint8", "uint16", "uint32", "uint64",
	"float32", "float64", "bool", "string", "VNInt", "VNStr", "VNBool", "VNF64", "VNU8"}
var keyNames = []string{"string", "int", "int8", "int64", "uint8", "uint64", "bool", "float64", "VNInt", "VNStr", "VNU8", "VSK"}
var structNames = []string{"VSA", "VSK", "VSB", "VSList", "VSC", "VSE", "VST"}

func (td *TD) rtype() reflect.Type {
	switch td.K {
	case "ptr":
		return reflect.PointerTo(td.E.rtype())
	case "slice":
		return reflect.SliceOf(td.E.rtype())
	case "map":
		return reflect.MapOf(td.Key.rtype(), td.E.rtype())
	case "array":
		return reflect.ArrayOf(td.N, td.E.rtype())
	}
	t, ok := baseTypes[td.K]
	if !ok {
		panic("unknown type desc " + td.K)
	}
	return t
}

func tdOf(t reflect.Type) *TD {
	for n, bt := range baseTypes {
		if bt == t {
			return &TD{K: n}
		}
	}
	switch t.Kind() {
	case reflect.Ptr:
		return &TD{K: "ptr", E: tdOf(t.Elem())}
	case reflect.Slice:
		return &TD{K: "slice", E: tdOf(t.Elem())}
	case reflect.Map:
		return &TD{K: "map", Key: tdOf(t.Key()), E: tdOf(t.Elem())}
	case reflect.Array:
		return &TD{K: "array", N: t.Len(), E: tdOf(t.Elem())}
	}
	panic("no type desc for " + t.String())
}

// Val describes a value of a type given by a TD.
type Val struct {
	Nil   bool   `json:"nil,omitempty"`
	I     int64  `json:"i,omitempty"`
	U     uint64 `json:"u,omitempty"` // unsigned values and float bits
	S     []byte `json:"s,omitempty"`
	B     bool   `json:"b,omitempty"`
	Elems []Val  `json:"el,omitempty"` // struct fields / slice elems / pointee / map k,v,k,v / interface payload
	Dyn   *TD    `json:"dyn,omitempty"`
}

// CaseC12 is one generated (type, value) pair.
type CaseC12 struct {
	Class string `json:"class"` // "universe" or an outside-universe probe class
	T     *TD    `json:"t"`
	V     Val    `json:"v"`
}

func build(t reflect.Type, v Val) reflect.Value {
	out := reflect.New(t).Elem()
	switch t.Kind() {
	case reflect.Int, reflect.Int8, reflect.Int16, reflect.Int32, reflect.Int64:
		out.SetInt(v.I)
	case reflect.Uint, reflect.Uint8, reflect.Uint16, reflect.Uint32, reflect.Uint64:
		out.SetUint(v.U)
	case reflect.Float32:
		out.SetFloat(float64(math.Float32frombits(uint32(v.U))))
	case reflect.Float64:
		out.SetFloat(math.Float64frombits(v.U))
	case reflect.Complex128:
		out.SetComplex(complex(float64(v.I), 1))
	case reflect.Bool:
		out.SetBool(v.B)
	case reflect.String:
		out.SetString(string(v.S))
	case reflect.Struct:
		j := 0
		for i := 0; i < t.NumField(); i++ {
			if t.Field(i).PkgPath != "" {
				if j < len(v.Elems) {
					j++
				}
				continue
			}
			if j < len(v.Elems) {
				out.Field(i).Set(build(t.Field(i).Type, v.Elems[j]))
			}
			j++
		}
	case reflect.Ptr:
		if v.Nil || len(v.Elems) == 0 {
			return out
		}
		p := reflect.New(t.Elem())
		p.Elem().Set(build(t.Elem(), v.Elems[0]))
		out.Set(p)
	case reflect.Slice:
		if v.Nil {
			return out
		}
		s := reflect.MakeSlice(t, 0, len(v.Elems))
		for _, e := range v.Elems {
			s = reflect.Append(s, build(t.Elem(), e))
		}
		out.Set(s)
	case reflect.Array:
		for i := 0; i < t.Len() && i < len(v.Elems); i++ {
			out.Index(i).Set(build(t.Elem(), v.Elems[i]))
		}
	case reflect.Map:
		if v.Nil {
			return out
		}
		m := reflect.MakeMap(t)
		for i := 0; i+1 < len(v.Elems); i += 2 {
			m.SetMapIndex(build(t.Key(), v.Elems[i]), build(t.Elem(), v.Elems[i+1]))
		}
		out.Set(m)
	case reflect.Interface:
		if v.Nil || v.Dyn == nil || len(v.Elems) == 0 {
			return out
		}
		dv := build(v.Dyn.rtype(), v.Elems[0])
		if dv.Type().AssignableTo(t) {
			out.Set(dv)
		}
	}
	return out
}

// ---- generator ---------------------------------------------------------------

type genCtx struct {
	t       *rapid.T
	maxD    int
	outside string // probe class, "" = stay inside the universe
}

func (g *genCtx) pick(label string, names []string) string {
	return names[rapid.IntRange(0, len(names)-1).Draw(g.t, label)]
}

// base draws the base type of a container element / pointee: registered, possibly behind pointers.
func (g *genCtx) elemType(d int) *TD {
	var td *TD
	switch rapid.IntRange(0, 9).Draw(g.t, "elemKind") {
	case 0, 1, 2, 3:
		td = &TD{K: g.pick("scalar", scalarNames)}
	case 4, 5, 6:
		td = &TD{K: g.pick("struct", structNames)}
	case 7, 8:
		td = &TD{K: "any"}
	default:
		td = &TD{K: "VNamer"}
	}
	if td.K != "any" && td.K != "VNamer" {
		for n := rapid.IntRange(0, 2).Draw(g.t, "elemPtr"); n > 0; n-- {
			td = &TD{K: "ptr", E: td}
		}
	}
	return td
}

// anyType draws the dynamic type for a top-level value or an interface position.
func (g *genCtx) anyType(d int) *TD {
	k := rapid.IntRange(0, 11).Draw(g.t, "typeKind")
	if d >= g.maxD {
		k = k % 4
	}
	switch k {
	case 0, 1:
		return &TD{K: g.pick("scalar", scalarNames)}
	case 2, 3:
		return &TD{K: g.pick("struct", structNames)}
	case 4, 5:
		return &TD{K: "slice", E: g.elemType(d)}
	case 6, 7:
		return &TD{K: "map", Key: &TD{K: g.pick("key", keyNames)}, E: g.elemType(d)}
	case 8, 9, 10:
		// pointer at depth 1..3 to scalar / struct
		var td *TD
		if rapid.Bool().Draw(g.t, "ptrToStruct") {
			td = &TD{K: g.pick("struct", structNames)}
		} else {
			td = &TD{K: g.pick("scalar", scalarNames)}
		}
		for n := rapid.IntRange(1, 3).Draw(g.t, "ptrDepth"); n > 0; n-- {
			td = &TD{K: "ptr", E: td}
		}
		return td
	default:
		// pointer to container
		var td *TD
		if rapid.Bool().Draw(g.t, "ptrToMap") {
			td = &TD{K: "map", Key: &TD{K: g.pick("key", keyNames)}, E: g.elemType(d)}
		} else {
			td = &TD{K: "slice", E: g.elemType(d)}
		}
		return &TD{K: "ptr", E: td}
	}
}

var interestingInts = []int64{0, 1, -1, math.MaxInt64, math.MinInt64, math.MaxInt32, math.MinInt32, 127, -128, 255, 256, 65535, 1 << 53, (1 << 53) + 1, -(1 << 53) - 1}
var interestingUints = []uint64{0, 1, math.MaxUint64, math.MaxUint32, 255, 256, 1 << 53, (1 << 53) + 1, math.MaxInt64, math.MaxInt64 + 1}
var interestingFloats = []float64{0, math.Copysign(0, -1), 1, -1, 0.1, math.MaxFloat64, -math.MaxFloat64, math.SmallestNonzeroFloat64, 1e21, 1e-7, 123456789.123456789, math.MaxFloat32, math.SmallestNonzeroFloat32, 1 << 53, 5e-324, 2.2250738585072014e-308}
var interestingStrings = []string{"", "a", "<script>&amp;</script>", "  ", "\"quoted\"\\", "null", "日本語", "\x00\x01\x1f", "{\"a\":1}", "é\U0001F600", " ", "\t\n\r", "�"}

func (g *genCtx) clampInt(t reflect.Type, x int64) int64 {
	switch t.Kind() {
	case reflect.Int8:
		return int64(int8(x))
	case reflect.Int16:
		return int64(int16(x))
	case reflect.Int32:
		return int64(int32(x))
	}
	return x
}

func (g *genCtx) clampUint(t reflect.Type, x uint64) uint64 {
	switch t.Kind() {
	case reflect.Uint8:
		return uint64(uint8(x))
	case reflect.Uint16:
		return uint64(uint16(x))
	case reflect.Uint32:
		return uint64(uint32(x))
	}
	return x
}

// syntaxTokens: pieces that matter to an encoder that embeds strings in JSON text (escapes, quotes, HTML
// characters json.Marshal escapes, look-alike escape sequences); strings are also built from these alone.
var syntaxTokens = []string{"\\", "\\\\", "\"", "\\n", "\\t", "\\u0041", "\\d", "a", "b", "/", "<", ">", "&", "'", "{", "}", ":", ",", " ", "\t", "\x7f", "é", "C:\\tmp"}

func (g *genCtx) str() []byte {
	switch rapid.IntRange(0, 3).Draw(g.t, "strKind") {
	case 0:
		return []byte(interestingStrings[rapid.IntRange(0, len(interestingStrings)-1).Draw(g.t, "istr")])
	case 1:
		var sb strings.Builder
		for i := rapid.IntRange(1, 6).Draw(g.t, "nTok"); i > 0; i-- {
			sb.WriteString(syntaxTokens[rapid.IntRange(0, len(syntaxTokens)-1).Draw(g.t, "tok")])
		}
		return []byte(sb.String())
	}
	s := rapid.StringN(0, 12, -1).Draw(g.t, "str")
	if !utf8.ValidString(s) {
		s = strings.ToValidUTF8(s, "?")
	}
	return []byte(s)
}

// val draws a value of static type t.
func (g *genCtx) val(t reflect.Type, d int) Val {
	switch t.Kind() {
	case reflect.Int, reflect.Int8, reflect.Int16, reflect.Int32, reflect.Int64:
		var x int64
		if rapid.Bool().Draw(g.t, "iint") {
			x = interestingInts[rapid.IntRange(0, len(interestingInts)-1).Draw(g.t, "ii")]
		} else {
			x = rapid.Int64().Draw(g.t, "int")
		}
		return Val{I: g.clampInt(t, x)}
	case reflect.Uint, reflect.Uint8, reflect.Uint16, reflect.Uint32, reflect.Uint64:
		var x uint64
		if rapid.Bool().Draw(g.t, "iuint") {
			x = interestingUints[rapid.IntRange(0, len(interestingUints)-1).Draw(g.t, "iu")]
		} else {
			x = rapid.Uint64().Draw(g.t, "uint")
		}
		return Val{U: g.clampUint(t, x)}
	case reflect.Float32, reflect.Float64:
		var f float64
		if g.outside == "nan-inf" && rapid.IntRange(0, 1).Draw(g.t, "nan") == 0 {
			f = []float64{math.NaN(), math.Inf(1), math.Inf(-1)}[rapid.IntRange(0, 2).Draw(g.t, "whichnan")]
		} else if rapid.Bool().Draw(g.t, "ifloat") {
			f = interestingFloats[rapid.IntRange(0, len(interestingFloats)-1).Draw(g.t, "if")]
		} else {
			f = rapid.Float64().Draw(g.t, "float")
		}
		if t.Kind() == reflect.Float32 {
			f32 := float32(f)
			if math.IsInf(float64(f32), 0) && !math.IsInf(f, 0) {
				f32 = math.MaxFloat32
			}
			return Val{U: uint64(math.Float32bits(f32))}
		}
		return Val{U: math.Float64bits(f)}
	case reflect.Complex128:
		return Val{I: int64(rapid.IntRange(-3, 3).Draw(g.t, "cplx"))}
	case reflect.Bool:
		return Val{B: rapid.Bool().Draw(g.t, "bool")}
	case reflect.String:
		if g.outside == "invalid-utf8" && rapid.Bool().Draw(g.t, "badutf") {
			return Val{S: append(g.str(), 0xff, 0xfe)}
		}
		return Val{S: g.str()}
	case reflect.Struct:
		v := Val{}
		for i := 0; i < t.NumField(); i++ {
			v.Elems = append(v.Elems, g.val(t.Field(i).Type, d+1))
		}
		return v
	case reflect.Ptr:
		nilP := 3
		if d >= g.maxD {
			nilP = 0
		}
		if rapid.IntRange(0, nilP).Draw(g.t, "ptrNil") == 0 {
			return Val{Nil: true}
		}
		return Val{Elems: []Val{g.val(t.Elem(), d+1)}}
	case reflect.Slice:
		if d >= g.maxD || rapid.IntRange(0, 5).Draw(g.t, "sliceNil") == 0 {
			return Val{Nil: true}
		}
		n := rapid.IntRange(0, 3).Draw(g.t, "sliceLen")
		v := Val{Elems: []Val{}}
		for i := 0; i < n; i++ {
			v.Elems = append(v.Elems, g.val(t.Elem(), d+1))
		}
		return v
	case reflect.Array:
		v := Val{}
		for i := 0; i < t.Len(); i++ {
			v.Elems = append(v.Elems, g.val(t.Elem(), d+1))
		}
		return v
	case reflect.Map:
		if d >= g.maxD || rapid.IntRange(0, 5).Draw(g.t, "mapNil") == 0 {
			return Val{Nil: true}
		}
		n := rapid.IntRange(0, 3).Draw(g.t, "mapLen")
		v := Val{Elems: []Val{}}
		for i := 0; i < n; i++ {
			v.Elems = append(v.Elems, g.val(t.Key(), d+1), g.val(t.Elem(), d+1))
		}
		return v
	case reflect.Interface:
		if d >= g.maxD || rapid.IntRange(0, 3).Draw(g.t, "ifaceNil") == 0 {
			return Val{Nil: true}
		}
		var dyn *TD
		if t.NumMethod() > 0 { // VNamer
			if rapid.Bool().Draw(g.t, "namerImpl") {
				dyn = &TD{K: "VNStr"}
			} else {
				dyn = &TD{K: "ptr", E: &TD{K: "VSA"}}
			}
		} else {
			dyn = g.anyType(d + 1)
		}
		return Val{Dyn: dyn, Elems: []Val{g.val(dyn.rtype(), d+1)}}
	}
	panic("val: unsupported kind " + t.String())
}

func genC12(rt *rapid.T) CaseC12 {
	g := &genCtx{t: rt, maxD: 4}
	if vkit.Thorough() {
		g.maxD = 6
	}
	c := CaseC12{Class: "universe"}
	if rapid.IntRange(0, 19).Draw(rt, "probe") == 0 {
		c.Class = []string{"nan-inf", "unregistered", "complex"}[rapid.IntRange(0, 2).Draw(rt, "probeClass")]
	}
	g.outside = c.Class
	switch c.Class {
	case "unregistered":
		switch rapid.IntRange(0, 2).Draw(rt, "unregShape") {
		case 0:
			c.T = &TD{K: "unregistered"}
		case 1:
			c.T = &TD{K: "slice", E: &TD{K: "unregistered"}}
		default:
			c.T = &TD{K: "ptr", E: &TD{K: "unregistered"}}
		}
	case "complex":
		c.T = &TD{K: "complex128"}
	case "nan-inf":
		c.T = &TD{K: []string{"float64", "float32", "VNF64"}[rapid.IntRange(0, 2).Draw(rt, "nanT")]}
		if rapid.Bool().Draw(rt, "nanInSlice") {
			c.T = &TD{K: "slice", E: c.T}
		}
	default:
		c.T = g.anyType(0)
	}
	c.V = g.val(c.T.rtype(), 0)
	return c
}

// ---- oracle --------------------------------------------------------------------

// deepEq compares a and b: identical types at every interface position, nil and empty
// containers equal, floats by value (NaN never occurs inside the universe).
func deepEq(a, b reflect.Value, path string) string {
	if a.IsValid() != b.IsValid() {
		return fmt.Sprintf("%s: validity differs (%v vs %v)", path, a.IsValid(), b.IsValid())
	}
	if !a.IsValid() {
		return ""
	}
	if a.Type() != b.Type() {
		if a.Kind() == reflect.Ptr && chainEndsNil(a) && b.Kind() == reflect.Ptr && b.IsNil() {
			if vkit.Known("C12", "ptr-to-nil-ptr") {
				excludedPtrToNilPtr++
				return ""
			}
			return fmt.Sprintf("%s: non-nil %v pointing to a nil pointer came back as nil %v [ptr-to-nil-ptr]", path, a.Type(), b.Type())
		}
		if a.Kind() == reflect.Ptr && (a.Type().Elem().Kind() == reflect.Slice || a.Type().Elem().Kind() == reflect.Map) {
			return fmt.Sprintf("%s: type %v became %v [ptr-to-container]", path, a.Type(), b.Type())
		}
		return fmt.Sprintf("%s: type %v became %v", path, a.Type(), b.Type())
	}
	switch a.Kind() {
	case reflect.Ptr:
		if b.IsNil() && chainEndsNil(a) && vkit.Known("C12", "ptr-to-nil-ptr") {
			// open known finding: exactly this position is excluded from the comparison
			excludedPtrToNilPtr++
			return ""
		}
		if a.IsNil() != b.IsNil() {
			if chainEndsNil(a) {
				return fmt.Sprintf("%s: non-nil pointer to a nil pointer came back as a nil pointer [ptr-to-nil-ptr]", path)
			}
			return fmt.Sprintf("%s: pointer nil-ness differs (in nil=%v, out nil=%v)", path, a.IsNil(), b.IsNil())
		}
		if a.IsNil() {
			return ""
		}
		return deepEq(a.Elem(), b.Elem(), path+".*")
	case reflect.Interface:
		if a.IsNil() != b.IsNil() {
			return fmt.Sprintf("%s: interface nil-ness differs (in nil=%v, out nil=%v)", path, a.IsNil(), b.IsNil())
		}
		if a.IsNil() {
			return ""
		}
		return deepEq(a.Elem(), b.Elem(), path+".(dyn)")
	case reflect.Struct:
		for i := 0; i < a.NumField(); i++ {
			if a.Type().Field(i).PkgPath != "" {
				continue
			}
			if d := deepEq(a.Field(i), b.Field(i), path+"."+a.Type().Field(i).Name); d != "" {
				return d
			}
		}
		return ""
	case reflect.Slice, reflect.Array:
		if a.Len() != b.Len() {
			return fmt.Sprintf("%s: length %d became %d", path, a.Len(), b.Len())
		}
		for i := 0; i < a.Len(); i++ {
			if d := deepEq(a.Index(i), b.Index(i), fmt.Sprintf("%s[%d]", path, i)); d != "" {
				return d
			}
		}
		return ""
	case reflect.Map:
		if a.Len() != b.Len() {
			return fmt.Sprintf("%s: map size %d became %d", path, a.Len(), b.Len())
		}
		it := a.MapRange()
		for it.Next() {
			bv := b.MapIndex(it.Key())
			if !bv.IsValid() {
				return fmt.Sprintf("%s: key %v lost", path, it.Key().Interface())
			}
			if d := deepEq(it.Value(), bv, fmt.Sprintf("%s[%v]", path, it.Key().Interface())); d != "" {
				return d
			}
		}
		return ""
	case reflect.Float32, reflect.Float64:
		if a.Float() != b.Float() { // -0 == 0, as in reflect.DeepEqual
			return fmt.Sprintf("%s: float %v became %v", path, a.Float(), b.Float())
		}
		return ""
	default:
		if !reflect.DeepEqual(a.Interface(), b.Interface()) {
			return fmt.Sprintf("%s: %#v became %#v", path, a.Interface(), b.Interface())
		}
		return ""
	}
}

var excludedPtrToNilPtr int

// chainEndsNil: a is a non-nil pointer and following the chain of pointers ends in a nil pointer.
func chainEndsNil(a reflect.Value) bool {
	if a.Kind() != reflect.Ptr || a.IsNil() {
		return false
	}
	for a.Kind() == reflect.Ptr && !a.IsNil() {
		a = a.Elem()
	}
	return a.Kind() == reflect.Ptr
}

type shape struct {
	depth                                  int
	ptr, container, ifaceHoldsComposite    bool
	ptrToNilPtr, ptrToContainer, hasNilPtr bool
	ptrToContainerNonNil                   bool
}

func walkShape(v reflect.Value, d int, sh *shape) {
	if !v.IsValid() {
		return
	}
	if d > sh.depth {
		sh.depth = d
	}
	switch v.Kind() {
	case reflect.Ptr:
		sh.ptr = true
		if v.Type().Elem().Kind() == reflect.Slice || v.Type().Elem().Kind() == reflect.Map {
			sh.ptrToContainer = true
			if !v.IsNil() {
				sh.ptrToContainerNonNil = true
			}
		}
		if v.IsNil() {
			sh.hasNilPtr = true
			return
		}
		if v.Elem().Kind() == reflect.Ptr && v.Elem().IsNil() {
			sh.ptrToNilPtr = true
		}
		walkShape(v.Elem(), d+1, sh)
	case reflect.Interface:
		if v.IsNil() {
			return
		}
		switch v.Elem().Kind() {
		case reflect.Struct, reflect.Slice, reflect.Map, reflect.Ptr:
			sh.ifaceHoldsComposite = true
		}
		walkShape(v.Elem(), d+1, sh)
	case reflect.Struct:
		for i := 0; i < v.NumField(); i++ {
			walkShape(v.Field(i), d+1, sh)
		}
	case reflect.Slice, reflect.Array:
		sh.container = true
		for i := 0; i < v.Len(); i++ {
			walkShape(v.Index(i), d+1, sh)
		}
	case reflect.Map:
		sh.container = true
		it := v.MapRange()
		for it.Next() {
			walkShape(it.Value(), d+1, sh)
		}
	}
}

func checkC12(c CaseC12) (*vkit.Failure, vkit.Meta) {
	var in reflect.Value
	if f := vkit.Guard("harness-build-panic", func() *vkit.Failure { in = build(c.T.rtype(), c.V); return nil }); f != nil {
		return nil, vkit.Meta{Labels: []string{"harness-build-panic"}} // malformed replay; not the property's business
	}
	var sh shape
	walkShape(in, 0, &sh)
	m := vkit.Meta{Labels: []string{"class:" + c.Class, "top:" + c.T.K}}
	m.NonTrivial = c.Class == "universe" && sh.depth >= 3 && sh.ptr && sh.container && sh.ifaceHoldsComposite
	if sh.ptrToNilPtr {
		m.Labels = append(m.Labels, "ptr-to-nil-ptr")
	}
	if sh.ptrToContainer {
		m.Labels = append(m.Labels, "ptr-to-container")
	}
	if sh.depth >= 3 {
		m.Labels = append(m.Labels, "depth>=3")
	}
	if sh.ifaceHoldsComposite {
		m.Labels = append(m.Labels, "iface-holds-composite")
	}

	var data []byte
	var merr, uerr error
	var out any
	retained := false
	f := vkit.Guard("panic", func() *vkit.Failure {
		data, merr = Marshal(in.Interface())
		if merr == nil {
			// the bytes are stored (a checkpoint store keeps the slice) while other values are serialised: the stored
			// bytes must stay what they were
			snapshot := append([]byte(nil), data...)
			for _, other := range []any{"x", map[string]any{"k": 1, "l": "m"}, in.Interface(), []any{1, "two", 3.0}} {
				_, _ = Marshal(other)
			}
			if string(snapshot) != string(data) {
				retained = true
			}
		}
		if merr != nil {
			return nil
		}
		out, uerr = Unmarshal(data)
		return nil
	})
	if f != nil {
		f.Sig = "panic-in-marshal-or-unmarshal"
		if sh.ptrToNilPtr {
			f.Sig = "ptr-to-nil-ptr"
		} else if sh.ptrToContainerNonNil {
			f.Sig = "ptr-to-container"
		}
		return f, m
	}
	if retained {
		return &vkit.Failure{Kind: "stored-bytes-changed", Sig: "stored-bytes-changed", Msg: "the bytes returned by Marshal changed while other values were being marshalled (a stored checkpoint would not read back what was written)"}, m
	}
	if merr != nil || uerr != nil {
		m.Labels = append(m.Labels, "rejected-loudly")
		return nil, m
	}
	m.Labels = append(m.Labels, "round-tripped")
	if c.Class != "universe" {
		// outside the universe only "no different value without an error" is asserted
		m.Labels = append(m.Labels, "outside-accepted")
	}
	var ov reflect.Value
	if out == nil {
		// a nil interface is what a nil `any` round-trips to; anything else must keep its type
		ov = reflect.Zero(in.Type())
		if in.Kind() != reflect.Interface {
			return &vkit.Failure{Kind: "roundtrip-mismatch", Sig: "nil-result", Msg: fmt.Sprintf("value of type %v came back as untyped nil", in.Type())}, m
		}
	} else {
		ov = reflect.ValueOf(out)
	}
	iv := in
	if iv.Kind() == reflect.Interface && !iv.IsNil() {
		iv = iv.Elem()
	}
	before := excludedPtrToNilPtr
	d := deepEq(iv, ov, "v")
	if excludedPtrToNilPtr > before {
		m.Labels = append(m.Labels, "excluded:ptr-to-nil-ptr")
	}
	if d != "" {
		sig := "mismatch"
		if strings.Contains(d, "[ptr-to-nil-ptr]") {
			sig = "ptr-to-nil-ptr"
		} else if strings.Contains(d, "[ptr-to-container]") {
			sig = "ptr-to-container"
		}
		return &vkit.Failure{Kind: "roundtrip-mismatch", Sig: sig, Msg: d,
			Detail: map[string]any{"encoded": vkit.Short(string(data), 1500), "in": vkit.Short(fmt.Sprintf("%#v", in.Interface()), 600), "out": vkit.Short(fmt.Sprintf("%#v", out), 600)}}, m
	}
	return nil, m
}

func TestC12(t *testing.T) {
	rec := vkit.NewRecorder("C12")
	vkit.Prop(t, rec, genC12, checkC12)
}

func TestC12Replay(t *testing.T) {
	vkit.Replay(t, "C12", checkC12)
}

// FuzzC12 drives the same property with Go's coverage-guided fuzzer: the byte input is
// rapid's random source, so the fuzzer mutates the decisions of the generator.
func FuzzC12(f *testing.F) {
	f.Add([]byte{})
	f.Add([]byte{1, 2, 3, 4, 5, 6, 7, 8, 9, 10, 11, 12, 13, 14, 15, 16})
	f.Add([]byte("\xff\xff\xff\xff\xff\xff\xff\xff\x00\x00\x00\x00\x00\x00\x00\x00\x07\x07\x07\x07\x07\x07\x07\x07"))
	f.Fuzz(rapid.MakeFuzz(func(rt *rapid.T) {
		c := genC12(rt)
		fl, _ := checkC12(c)
		if fl != nil && !vkit.Known("C12", fl.Sig) {
			rec := vkit.NewRecorder("C12")
			rec.WriteFail(c, fl)
			rt.Fatalf("VERIF-FAIL %s sig=%s: %s", fl.Kind, fl.Sig, fl.Msg)
		}
	}))
}
