package react_test

// C09 (ReAct agent): one agent used from several goroutines at once, with return-directly tools,
// MessageModifier, Generate and Stream mixed.  Oracle: every call's answer, model histories and
// tool invocations equal the reference loop for its own input; under -race no report in eino.

import (
	"context"
	"fmt"
	"io"
	"sort"
	"sync"
	"testing"

	"github.com/cloudwego/eino/callbacks"
	"github.com/cloudwego/eino/compose"
	"github.com/cloudwego/eino/flow/agent"
	"github.com/cloudwego/eino/flow/agent/react"
	"github.com/cloudwego/eino/internal/vkit"
	rapid "github.com/cloudwego/eino/internal/vrapid"
	"github.com/cloudwego/eino/schema"
)

type CaseC09R struct {
	C       CaseC18 `json:"c"`
	Workers int     `json:"workers"`
	Calls   int     `json:"calls"`
	// SharedOpts: every call passes one shared agent option (compose options taken from a slice with spare
	// capacity, as a caller who builds the list once would have) followed by a per-call tool option carrying the
	// call's tag; every tool invocation must see exactly its own call's tag
	SharedOpts bool `json:"sharedopts,omitempty"`
}

func genC09R(t *rapid.T) CaseC09R {
	c := CaseC09R{C: genC18(t), Workers: rapid.IntRange(2, 8).Draw(t, "workers"), Calls: rapid.IntRange(1, 3).Draw(t, "calls")}
	c.SharedOpts = rapid.Bool().Draw(t, "sharedOpts")
	if rapid.IntRange(0, 1).Draw(t, "forceDirect") == 0 && len(c.C.Direct) == 0 {
		c.C.Direct = []string{c.C.Tools[0]}
	}
	return c
}

func checkC09R(cc CaseC09R) (*vkit.Failure, vkit.Meta) {
	var m vkit.Meta
	c := cc.C
	if len(c.Input) == 0 || len(c.Tools) == 0 || cc.Workers < 1 {
		return nil, m
	}
	f := vkit.Guard("panic-escaped", func() *vkit.Failure {
		ctx := context.Background()
		cfg := &react.AgentConfig{ToolCallingModel: &model18{c: c}, MaxStep: c.MaxStep}
		for _, n := range c.Tools {
			if c.StreamTls {
				cfg.ToolsConfig.Tools = append(cfg.ToolsConfig.Tools, &strTool18{tool18{name: n, stream: true}})
			} else {
				cfg.ToolsConfig.Tools = append(cfg.ToolsConfig.Tools, &invTool18{tool18{name: n}})
			}
		}
		if len(c.Direct) > 0 {
			cfg.ToolReturnDirectly = map[string]struct{}{}
			for _, d := range c.Direct {
				cfg.ToolReturnDirectly[d] = struct{}{}
			}
		}
		if c.Modifier {
			cfg.MessageModifier = personaModifier18(c.ModInPlace)
		}
		if c.WholeChk {
			cfg.StreamToolCallChecker = wholeChecker
		}
		ag, err := react.NewAgent(ctx, cfg)
		if err != nil {
			return vkit.Failf("harness", "NewAgent: %v", err)
		}
		var shared []agent.AgentOption
		if cc.SharedOpts {
			base := make([]compose.Option, 0, 8)
			base = append(base, compose.WithCallbacks(callbacks.NewHandlerBuilder().Build()))
			shared = append(shared, agent.WithComposeOptions(base...))
		}
		n := cc.Workers * cc.Calls
		type res struct {
			got  string
			err  error
			run  *run18
			mode string
		}
		results := make([]res, n)
		start := make(chan struct{})
		var wg sync.WaitGroup
		for w := 0; w < cc.Workers; w++ {
			wg.Add(1)
			go func(w int) {
				defer wg.Done()
				<-start
				for k := 0; k < cc.Calls; k++ {
					i := w*cc.Calls + k
					tag := fmt.Sprintf("call%d", i)
					run := &run18{tag: tag}
					rctx := context.WithValue(ctx, run18Key{}, run)
					var in []*schema.Message
					for _, s := range c.Input {
						in = append(in, schema.UserMessage(tag+s))
					}
					var aopts []agent.AgentOption
					if cc.SharedOpts {
						aopts = append(append(aopts, shared...), react.WithToolOptions(tagToolOpt(tag)))
					}
					mode := []string{"generate", "stream"}[i%2]
					var got *schema.Message
					var rerr error
					func() {
						defer func() {
							if p := recover(); p != nil {
								rerr = fmt.Errorf("panic: %v", p)
							}
						}()
						if mode == "generate" {
							got, rerr = ag.Generate(rctx, in, aopts...)
							return
						}
						sr, err := ag.Stream(rctx, in, aopts...)
						if err != nil {
							rerr = err
							return
						}
						defer sr.Close()
						var chunks []*schema.Message
						for {
							ch, err := sr.Recv()
							if err == io.EOF {
								break
							}
							if err != nil {
								rerr = err
								return
							}
							chunks = append(chunks, ch)
						}
						if len(chunks) == 1 {
							got = chunks[0]
						} else {
							got, rerr = schema.ConcatMessages(chunks)
						}
					}()
					results[i] = res{got: canonMsg(got), err: rerr, run: run, mode: mode}
				}
			}(w)
		}
		close(start)
		wg.Wait()
		for i, rs := range results {
			tag := fmt.Sprintf("call%d", i)
			cin := c
			cin.Input = nil
			for _, s := range c.Input {
				cin.Input = append(cin.Input, tag+s)
			}
			ref := reference18(cin, tag)
			if ref.fail != "" {
				if rs.err == nil {
					return vkit.Failf("concurrent-outcome", "call %d should hit the step limit, returned %s", i, rs.got)
				}
				continue
			}
			if rs.err != nil {
				return vkit.Failf("concurrent-outcome", "call %d (%s, one of %d concurrent calls) failed: %v; alone it answers %q", i, rs.mode, n, rs.err, ref.final)
			}
			if rs.got != ref.final {
				return &vkit.Failure{Kind: "concurrent-output", Sig: "concurrent-output", Msg: fmt.Sprintf("call %d (%s, one of %d concurrent calls) returned %q, alone it returns %q", i, rs.mode, n, rs.got, ref.final)}
			}
			rs.run.mu.Lock()
			gotIn := append([]string(nil), rs.run.modelIn...)
			gotTools := append([]string(nil), rs.run.toolCalls...)
			gotOpts := append([]string(nil), rs.run.toolOpts...)
			rs.run.mu.Unlock()
			if cc.SharedOpts {
				for _, o := range gotOpts {
					if o != tag {
						return &vkit.Failure{Kind: "concurrent-options", Sig: "concurrent-options", Msg: fmt.Sprintf("call %d passed the tool option tagged %q after a shared agent option; one of its tool invocations received the tags %q", i, tag, o)}
					}
				}
			}
			if fmt.Sprint(gotIn) != fmt.Sprint(ref.modelIn) {
				return &vkit.Failure{Kind: "concurrent-history", Sig: "concurrent-history", Msg: fmt.Sprintf("call %d: model inputs %q, reference %q", i, gotIn, ref.modelIn)}
			}
			var wantTools []string
			for _, tcs := range ref.toolCalls {
				wantTools = append(wantTools, tcs...)
			}
			sort.Strings(gotTools)
			sort.Strings(wantTools)
			if fmt.Sprint(gotTools) != fmt.Sprint(wantTools) {
				return vkit.Failf("concurrent-tools", "call %d: tools invoked %v, reference %v", i, gotTools, wantTools)
			}
		}
		m.Labels = append(m.Labels, fmt.Sprintf("workers:%d", cc.Workers))
		if len(c.Direct) > 0 {
			m.Labels = append(m.Labels, "return-directly-configured")
		}
		if cc.SharedOpts {
			m.Labels = append(m.Labels, "shared-agent-option+per-call-tool-option")
		}
		m.NonTrivial = n >= 3 && len(c.Script) >= 1
		return nil
	})
	return f, m
}

func TestC09React(t *testing.T) {
	rec := vkit.NewRecorder("C09")
	vkit.Prop(t, rec, genC09R, checkC09R)
}

func TestC09ReactReplay(t *testing.T) {
	vkit.Replay(t, "C09", checkC09R)
}
