package react_test

// C19 (ReAct agent): after a streamed agent call whose output the caller reads to the end or closes early, no
// tool producer stays blocked - in particular on the return-directly path, where the stream the caller holds IS
// the tool's stream (copied for the branch that decides where to go).
//
// Generated: agent scripts as in C18 (several turns, several tool calls per turn, return-directly tools mostly
// configured and called); every tool streams through a real pipe fed by a producer goroutine (generated number
// of chunks, pipe capacity 0-2); the caller reads a generated number of chunks and closes, or reads to the end.
// Oracle (fixed point over the producers of the run): every producer goroutine started in the run has returned
// shortly after the call returned and its stream was closed / exhausted.

import (
	"context"
	"fmt"
	"io"
	"sync"
	"sync/atomic"
	"testing"
	"time"

	"github.com/cloudwego/eino/components/tool"
	"github.com/cloudwego/eino/flow/agent/react"
	"github.com/cloudwego/eino/internal/vkit"
	rapid "github.com/cloudwego/eino/internal/vrapid"
	"github.com/cloudwego/eino/schema"
)

type CaseC19R struct {
	C      CaseC18 `json:"c"`
	Pieces int     `json:"pieces"` // chunks per tool stream
	Cap    int     `json:"cap"`    // pipe capacity
	Read   int     `json:"read"`   // chunks the caller reads before closing (-1 = to the end)
}

type run19 struct {
	started, finished int64
	mu                sync.Mutex
	blocked           map[string]bool
}

type run19Key struct{}

type pipeTool19 struct {
	tool18
	pieces, cap int
}

func (t *pipeTool19) StreamableRun(ctx context.Context, args string, opts ...tool.Option) (*schema.StreamReader[string], error) {
	t.note(ctx, args, opts...)
	out := toolOut18(t.name, args)
	r, _ := ctx.Value(run19Key{}).(*run19)
	sr, sw := schema.Pipe[string](t.cap)
	if r != nil {
		atomic.AddInt64(&r.started, 1)
	}
	go func() {
		defer func() {
			sw.Close()
			if r != nil {
				atomic.AddInt64(&r.finished, 1)
			}
		}()
		n := t.pieces
		for i := 0; i < n; i++ {
			piece := out[len(out)*i/n : len(out)*(i+1)/n]
			if i >= 3 {
				piece = "" // long streams: the text is in the first pieces, the rest keeps the producer busy
			}
			if closed := sw.Send(piece, nil); closed {
				return
			}
		}
	}()
	return sr, nil
}

func genC19R(t *rapid.T) CaseC19R {
	c := CaseC19R{C: genC18(t), Pieces: rapid.IntRange(1, 40).Draw(t, "pieces"), Cap: rapid.IntRange(0, 2).Draw(t, "cap"), Read: rapid.IntRange(-1, 6).Draw(t, "read")}
	c.C.StreamTls = true
	c.C.Exported = false
	if len(c.C.Direct) == 0 && rapid.IntRange(0, 3).Draw(t, "forceDirect") > 0 {
		c.C.Direct = []string{c.C.Tools[rapid.IntRange(0, 2).Draw(t, "direct")]}
	}
	return c
}

func checkC19R(cc CaseC19R) (*vkit.Failure, vkit.Meta) {
	var m vkit.Meta
	c := cc.C
	if len(c.Input) == 0 || len(c.Tools) == 0 || cc.Pieces < 1 {
		return nil, m
	}
	f := vkit.Guard("panic-escaped", func() *vkit.Failure {
		ctx := context.Background()
		cfg := &react.AgentConfig{ToolCallingModel: &model18{c: c}, MaxStep: c.MaxStep}
		for _, n := range c.Tools {
			cfg.ToolsConfig.Tools = append(cfg.ToolsConfig.Tools, &pipeTool19{tool18: tool18{name: n, stream: true}, pieces: cc.Pieces, cap: cc.Cap})
		}
		if len(c.Direct) > 0 {
			cfg.ToolReturnDirectly = map[string]struct{}{}
			for _, d := range c.Direct {
				cfg.ToolReturnDirectly[d] = struct{}{}
			}
		}
		if c.Modifier {
			cfg.MessageModifier = personaModifier18(c.ModInPlace)
		}
		if c.WholeChk {
			cfg.StreamToolCallChecker = wholeChecker
		}
		ag, err := react.NewAgent(ctx, cfg)
		if err != nil {
			return vkit.Failf("harness", "NewAgent: %v", err)
		}
		ref := reference18(c, "r")
		run := &run19{}
		r18 := &run18{tag: "r"}
		rctx := context.WithValue(context.WithValue(ctx, run19Key{}, run), run18Key{}, r18)
		var in []*schema.Message
		for _, s := range c.Input {
			in = append(in, schema.UserMessage(s))
		}
		sr, err := ag.Stream(rctx, in)
		readAll := cc.Read < 0
		got := 0
		if err == nil {
			for readAll || got < cc.Read {
				_, e := sr.Recv()
				if e == io.EOF {
					readAll = true
					break
				}
				if e != nil {
					err = e
					break
				}
				got++
			}
			sr.Close()
		}
		if ref.fail == "" && err != nil {
			return vkit.Failf("agent-call-failed", "the streamed call failed: %v", err)
		}
		if err != nil {
			m.Labels = append(m.Labels, "failed-run(out of scope)")
			return nil
		}
		m.Labels = append(m.Labels, fmt.Sprintf("direct-hit:%v", ref.directHit), fmt.Sprintf("read-to-end:%v", readAll))
		m.NonTrivial = ref.directHit && !readAll && cc.Pieces > got+cc.Cap+1
		// fixed point: every producer of this run returns
		deadline := time.Now().Add(10 * time.Second)
		for {
			s, fn := atomic.LoadInt64(&run.started), atomic.LoadInt64(&run.finished)
			if s == fn {
				return nil
			}
			if time.Now().After(deadline) {
				return &vkit.Failure{Kind: "producer-still-blocked", Sig: "producer-still-blocked", Msg: fmt.Sprintf("the call returned and its stream was %s (%d chunks read), yet %d of %d tool producers are still blocked 10 s later (return-directly tool called: %v, %d pieces per tool stream, pipe capacity %d)",
					map[bool]string{true: "read to the end", false: "closed early"}[readAll], got, s-fn, s, ref.directHit, cc.Pieces, cc.Cap)}
			}
			time.Sleep(200 * time.Microsecond)
		}
	})
	return f, m
}

func TestC19React(t *testing.T) {
	rec := vkit.NewRecorder("C19")
	vkit.Prop(t, rec, genC19R, checkC19R)
}

func TestC19ReactReplay(t *testing.T) {
	vkit.Replay(t, "C19", checkC19R)
}
