package react_test

// C18: the ReAct agent alternates model and tools faithfully and stops.
// Generated: model scripts (assistant messages with 0-3 tool calls and content) streamed in a
// generated chunking (for the default tool-call checker the documented precondition "tool calls
// come with the first non-empty chunk" is respected by construction; arbitrary chunkings are
// used with a whole-stream checker), tool sets with recording tools, return-directly subsets,
// step limits, optional MessageModifier, Generate and Stream.
// Oracle: a reference ReAct loop: the k-th model call must have been given the original messages
// followed by every earlier assistant message and its tool results in call order (snapshot taken
// by the mock at call time); tools are invoked exactly for the calls of each turn; the agent
// returns the first assistant message without tool calls, or the result of the first call of a
// return-directly tool, or fails with the step-limit error; Generate and concatenated Stream agree.

import (
	"context"
	"errors"
	"fmt"
	"io"
	"sort"
	"strings"
	"sync"
	"testing"
	"time"

	"github.com/cloudwego/eino/components/model"
	"github.com/cloudwego/eino/components/tool"
	"github.com/cloudwego/eino/compose"
	"github.com/cloudwego/eino/flow/agent/react"
	"github.com/cloudwego/eino/internal/vkit"
	rapid "github.com/cloudwego/eino/internal/vrapid"
	"github.com/cloudwego/eino/schema"
)

type Call18 struct {
	Tool string `json:"tool"`
	Args string `json:"args"`
}

type Turn18 struct {
	Content string   `json:"content"`
	Calls   []Call18 `json:"calls,omitempty"`
	Chunks  int      `json:"chunks"`           // number of stream chunks
	Late    bool     `json:"late,omitempty"`   // tool calls arrive after a content chunk (needs the whole-stream checker)
	Lead    int      `json:"lead,omitempty"`   // number of empty chunks in front of the first chunk that carries anything (0 = one, as before)
	IDLate  bool     `json:"idlate,omitempty"` // id, type and name of the tool calls arrive in the chunk after the first argument fragment
}

type CaseC18 struct {
	Input    []string `json:"input"`
	Script   []Turn18 `json:"script"`
	Tools    []string `json:"tools"`
	Direct   []string `json:"direct,omitempty"`
	MaxStep  int      `json:"maxstep,omitempty"`
	Modifier bool     `json:"modifier,omitempty"`
	// ModInPlace: the modifier builds its result inside the slice it is given (append + shift) instead of a new one;
	// what it returns is the same, and the agent's own history must not be affected by it
	ModInPlace bool `json:"modinplace,omitempty"`
	WholeChk   bool `json:"wholechk,omitempty"`
	StreamTls  bool `json:"streamtools,omitempty"` // tools are streamable-only
	// MixTools: the tool set mixes component kinds: ta is streamable-only, tb invokable-only, tc both (in this
	// order in the configuration); the note each tool makes and its output carry its own name
	MixTools bool `json:"mixtools,omitempty"`
	Exported bool `json:"exported,omitempty"` // the agent is used as a node of a parent graph (ExportGraph and its options)
}

type run18 struct {
	mu        sync.Mutex
	modelIn   []string // canonical snapshot of every model call's input
	toolCalls []string // "tool(args)#id" in invocation order
	toolOpts  []string // tags carried by the tool options each tool invocation received (C09)
	tag       string
}

// tOpt18 is the implementation-specific tool option of the harness tools: it collects tags.
type tOpt18 struct{ tags []string }

func tagToolOpt(tag string) tool.Option {
	return tool.WrapImplSpecificOptFn(func(o *tOpt18) { o.tags = append(o.tags, tag) })
}

type run18Key struct{}

func canonMsg(m *schema.Message) string {
	if m == nil {
		return "<nil>"
	}
	var tcs []string
	for _, tc := range m.ToolCalls {
		tcs = append(tcs, fmt.Sprintf("%s:%s(%s)", tc.ID, tc.Function.Name, tc.Function.Arguments))
	}
	return fmt.Sprintf("%s|%s|%s|%s", m.Role, m.Content, strings.Join(tcs, ","), m.ToolCallID)
}

func canonMsgs(ms []*schema.Message) string {
	var parts []string
	for _, m := range ms {
		parts = append(parts, canonMsg(m))
	}
	return strings.Join(parts, " ; ")
}

func callID(turn, i int) string { return fmt.Sprintf("t%dc%d", turn, i) }

func (c CaseC18) assistant(turn int, tag string) *schema.Message {
	if turn >= len(c.Script) {
		return &schema.Message{Role: schema.Assistant, Content: "final:" + tag}
	}
	t := c.Script[turn]
	m := &schema.Message{Role: schema.Assistant, Content: t.Content}
	for i, cl := range t.Calls {
		idx := i
		m.ToolCalls = append(m.ToolCalls, schema.ToolCall{Index: &idx, ID: callID(turn, i), Type: "function", Function: schema.FunctionCall{Name: cl.Tool, Arguments: cl.Args}})
	}
	return m
}

// chunks splits an assistant message into stream chunks whose concatenation is the message.
func (c CaseC18) chunks(turn int, tag string) []*schema.Message {
	full := c.assistant(turn, tag)
	n := 1
	late, idLate := false, false
	if turn < len(c.Script) {
		n = c.Script[turn].Chunks
		late = c.Script[turn].Late && c.WholeChk
		idLate = c.Script[turn].IDLate
	}
	if n <= 1 {
		return []*schema.Message{full}
	}
	var out []*schema.Message
	// the first chunk carries the tool calls (ids, names, first half of the arguments) unless "late"
	head := &schema.Message{Role: schema.Assistant}
	for _, tc := range full.ToolCalls {
		idx := *tc.Index
		a := tc.Function.Arguments
		if idLate {
			head.ToolCalls = append(head.ToolCalls, schema.ToolCall{Index: &idx, Function: schema.FunctionCall{Arguments: a[:len(a)/2]}})
		} else {
			head.ToolCalls = append(head.ToolCalls, schema.ToolCall{Index: &idx, ID: tc.ID, Type: tc.Type, Function: schema.FunctionCall{Name: tc.Function.Name, Arguments: a[:len(a)/2]}})
		}
	}
	tail := &schema.Message{Role: schema.Assistant}
	for _, tc := range full.ToolCalls {
		idx := *tc.Index
		a := tc.Function.Arguments
		if idLate {
			tail.ToolCalls = append(tail.ToolCalls, schema.ToolCall{Index: &idx, ID: tc.ID, Type: tc.Type, Function: schema.FunctionCall{Name: tc.Function.Name, Arguments: a[len(a)/2:]}})
		} else {
			tail.ToolCalls = append(tail.ToolCalls, schema.ToolCall{Index: &idx, Function: schema.FunctionCall{Arguments: a[len(a)/2:]}})
		}
	}
	content := full.Content
	k := n - 2
	if k < 1 {
		k = 1
	}
	var cchunks []*schema.Message
	for i := 0; i < k; i++ {
		lo, hi := len(content)*i/k, len(content)*(i+1)/k
		cchunks = append(cchunks, &schema.Message{Role: schema.Assistant, Content: content[lo:hi]})
	}
	if late && len(full.ToolCalls) > 0 {
		out = append(out, cchunks...)
		out = append(out, head)
	} else {
		lead := 1
		if turn < len(c.Script) && c.Script[turn].Lead > 0 {
			lead = c.Script[turn].Lead
		}
		for i := 0; i < lead; i++ {
			out = append(out, &schema.Message{Role: schema.Assistant}) // empty chunks at the front are allowed
		}
		out = append(out, head)
		out = append(out, cchunks...)
	}
	if len(full.ToolCalls) > 0 {
		out = append(out, tail)
	}
	return out
}

type model18 struct{ c CaseC18 }

func (m *model18) next(ctx context.Context, in []*schema.Message) (int, string) {
	r, _ := ctx.Value(run18Key{}).(*run18)
	if r == nil {
		return 0, ""
	}
	r.mu.Lock()
	defer r.mu.Unlock()
	r.modelIn = append(r.modelIn, canonMsgs(in))
	return len(r.modelIn) - 1, r.tag
}

func (m *model18) Generate(ctx context.Context, in []*schema.Message, opts ...model.Option) (*schema.Message, error) {
	k, tag := m.next(ctx, in)
	return m.c.assistant(k, tag), nil
}

func (m *model18) Stream(ctx context.Context, in []*schema.Message, opts ...model.Option) (*schema.StreamReader[*schema.Message], error) {
	k, tag := m.next(ctx, in)
	return schema.StreamReaderFromArray(m.c.chunks(k, tag)), nil
}

func (m *model18) WithTools(tools []*schema.ToolInfo) (model.ToolCallingChatModel, error) {
	return m, nil
}

type tool18 struct {
	name   string
	stream bool
}

func (t *tool18) Info(ctx context.Context) (*schema.ToolInfo, error) {
	return &schema.ToolInfo{Name: t.name, Desc: "d"}, nil
}

// personaModifier18 prepends the persona message: either into a new slice (the library's own modifier) or inside
// the slice it is given.
func personaModifier18(inPlace bool) react.MessageModifier {
	if !inPlace {
		return react.NewPersonaModifier("persona")
	}
	return func(ctx context.Context, in []*schema.Message) []*schema.Message {
		in = append(in, nil)
		copy(in[1:], in)
		in[0] = schema.SystemMessage("persona")
		return in
	}
}

func toolOut18(name, args string) string { return name + "<" + args + ">" }

func (t *tool18) note(ctx context.Context, args string, opts ...tool.Option) {
	if r, _ := ctx.Value(run18Key{}).(*run18); r != nil {
		o := tool.GetImplSpecificOptions(&tOpt18{}, opts...)
		r.mu.Lock()
		r.toolOpts = append(r.toolOpts, strings.Join(o.tags, "+"))
		r.toolCalls = append(r.toolCalls, fmt.Sprintf("%s(%s)#%s", t.name, args, compose.GetToolCallID(ctx)))
		r.mu.Unlock()
	}
}

type invTool18 struct{ tool18 }

func (t *invTool18) InvokableRun(ctx context.Context, args string, opts ...tool.Option) (string, error) {
	t.note(ctx, args, opts...)
	return toolOut18(t.name, args), nil
}

type strTool18 struct{ tool18 }

func (t *strTool18) StreamableRun(ctx context.Context, args string, opts ...tool.Option) (*schema.StreamReader[string], error) {
	t.note(ctx, args, opts...)
	o := toolOut18(t.name, args)
	return schema.StreamReaderFromArray([]string{o[:len(o)/2], o[len(o)/2:]}), nil
}

type bothTool18 struct{ tool18 }

func (t *bothTool18) InvokableRun(ctx context.Context, args string, opts ...tool.Option) (string, error) {
	t.note(ctx, args, opts...)
	return toolOut18(t.name, args), nil
}

func (t *bothTool18) StreamableRun(ctx context.Context, args string, opts ...tool.Option) (*schema.StreamReader[string], error) {
	t.note(ctx, args, opts...)
	o := toolOut18(t.name, args)
	return schema.StreamReaderFromArray([]string{o[:len(o)/2], o[len(o)/2:]}), nil
}

func wholeChecker(ctx context.Context, sr *schema.StreamReader[*schema.Message]) (bool, error) {
	defer sr.Close()
	for {
		m, err := sr.Recv()
		if err == io.EOF {
			return false, nil
		}
		if err != nil {
			return false, err
		}
		if len(m.ToolCalls) > 0 {
			return true, nil
		}
	}
}

func genC18(t *rapid.T) CaseC18 {
	c := CaseC18{Tools: []string{"ta", "tb", "tc"}}
	for i := rapid.IntRange(1, 2).Draw(t, "nIn"); i > 0; i-- {
		c.Input = append(c.Input, rapid.StringMatching("[a-c]{1,3}").Draw(t, "in"))
	}
	c.WholeChk = rapid.Bool().Draw(t, "wholeChk")
	nt := rapid.IntRange(0, 4).Draw(t, "nTurns")
	for i := 0; i < nt; i++ {
		tr := Turn18{Content: rapid.StringMatching("[a-d]{0,4}").Draw(t, "content"), Chunks: rapid.IntRange(1, 4).Draw(t, "chunks")}
		nc := rapid.IntRange(1, 3).Draw(t, "nCalls")
		if i == nt-1 && rapid.Bool().Draw(t, "lastPlain") {
			nc = 0
		}
		for j := 0; j < nc; j++ {
			tr.Calls = append(tr.Calls, Call18{Tool: c.Tools[rapid.IntRange(0, 2).Draw(t, "tool")], Args: rapid.StringMatching("[a-c]{0,3}").Draw(t, "args")})
		}
		tr.Late = rapid.IntRange(0, 3).Draw(t, "late") == 0
		tr.IDLate = rapid.IntRange(0, 3).Draw(t, "idLate") == 0
		tr.Lead = rapid.IntRange(0, 3).Draw(t, "lead")
		c.Script = append(c.Script, tr)
	}
	if rapid.IntRange(0, 2).Draw(t, "hasDirect") == 0 {
		c.Direct = []string{c.Tools[rapid.IntRange(0, 2).Draw(t, "direct")]}
		if rapid.Bool().Draw(t, "direct2") {
			c.Direct = append(c.Direct, c.Tools[rapid.IntRange(0, 2).Draw(t, "directB")])
		}
	}
	if rapid.IntRange(0, 2).Draw(t, "hasMax") == 0 {
		c.MaxStep = rapid.IntRange(1, 8).Draw(t, "maxStep")
	}
	c.Modifier = rapid.IntRange(0, 3).Draw(t, "modifier") == 0
	c.ModInPlace = c.Modifier && rapid.Bool().Draw(t, "modInPlace")
	c.StreamTls = rapid.IntRange(0, 3).Draw(t, "streamTools") == 0
	c.MixTools = !c.StreamTls && rapid.IntRange(0, 2).Draw(t, "mixTools") == 0
	c.Exported = rapid.IntRange(0, 3).Draw(t, "exported") == 0
	return c
}

type ref18 struct {
	modelIn   []string
	toolCalls [][]string // per turn, sorted
	final     string
	fail      string
	directHit bool
	turns     int
}

func reference18(c CaseC18, tag string) ref18 {
	var r ref18
	max := c.MaxStep
	if max == 0 {
		max = 12
		if len(c.Direct) > 0 {
			max = 13
		}
	}
	direct := map[string]bool{}
	for _, d := range c.Direct {
		direct[d] = true
	}
	var hist []*schema.Message
	for _, in := range c.Input {
		hist = append(hist, schema.UserMessage(in))
	}
	steps := 0
	for k := 0; ; k++ {
		if steps >= max {
			r.fail = "maxsteps"
			return r
		}
		steps++
		seen := hist
		if c.Modifier {
			seen = append([]*schema.Message{schema.SystemMessage("persona")}, hist...)
		}
		r.modelIn = append(r.modelIn, canonMsgs(seen))
		a := c.assistant(k, tag)
		r.turns++
		if len(a.ToolCalls) == 0 {
			r.final = canonMsg(a)
			return r
		}
		hist = append(hist, a)
		if steps >= max {
			r.fail = "maxsteps"
			return r
		}
		steps++
		var results []*schema.Message
		var tcs []string
		rd := -1
		for i, tc := range a.ToolCalls {
			results = append(results, schema.ToolMessage(toolOut18(tc.Function.Name, tc.Function.Arguments), tc.ID))
			tcs = append(tcs, fmt.Sprintf("%s(%s)#%s", tc.Function.Name, tc.Function.Arguments, tc.ID))
			if rd < 0 && direct[tc.Function.Name] {
				rd = i
			}
		}
		sort.Strings(tcs)
		r.toolCalls = append(r.toolCalls, tcs)
		if rd >= 0 {
			if steps >= max {
				r.fail = "maxsteps"
				return r
			}
			steps++
			r.final = canonMsg(results[rd])
			r.directHit = true
			return r
		}
		hist = append(hist, results...)
	}
}

func checkC18(c CaseC18) (*vkit.Failure, vkit.Meta) {
	var m vkit.Meta
	if len(c.Input) == 0 || len(c.Tools) == 0 {
		return nil, m
	}
	f := vkit.Guard("panic-escaped", func() *vkit.Failure {
		ctx := context.Background()
		cfg := &react.AgentConfig{ToolCallingModel: &model18{c: c}, MaxStep: c.MaxStep}
		for i, n := range c.Tools {
			switch {
			case c.MixTools && i%3 == 2:
				cfg.ToolsConfig.Tools = append(cfg.ToolsConfig.Tools, &bothTool18{tool18{name: n, stream: true}})
			case c.StreamTls || (c.MixTools && i%3 == 0):
				cfg.ToolsConfig.Tools = append(cfg.ToolsConfig.Tools, &strTool18{tool18{name: n, stream: true}})
			default:
				cfg.ToolsConfig.Tools = append(cfg.ToolsConfig.Tools, &invTool18{tool18{name: n}})
			}
		}
		if len(c.Direct) > 0 {
			cfg.ToolReturnDirectly = map[string]struct{}{}
			for _, d := range c.Direct {
				cfg.ToolReturnDirectly[d] = struct{}{}
			}
		}
		if c.Modifier {
			cfg.MessageModifier = personaModifier18(c.ModInPlace)
		}
		if c.WholeChk {
			cfg.StreamToolCallChecker = wholeChecker
		}
		ag, err := react.NewAgent(ctx, cfg)
		if err != nil {
			return vkit.Failf("harness", "NewAgent: %v", err)
		}
		var in []*schema.Message
		for _, s := range c.Input {
			in = append(in, schema.UserMessage(s))
		}
		generate := func(ctx context.Context, in []*schema.Message) (*schema.Message, error) { return ag.Generate(ctx, in) }
		stream := func(ctx context.Context, in []*schema.Message) (*schema.StreamReader[*schema.Message], error) {
			return ag.Stream(ctx, in)
		}
		if c.Exported {
			// the documented way to nest the agent: its graph and the options it was compiled with
			sub, subOpts := ag.ExportGraph()
			parent := compose.NewGraph[[]*schema.Message, *schema.Message]()
			if err := parent.AddGraphNode("agent", sub, subOpts...); err != nil {
				return vkit.Failf("harness", "AddGraphNode(ExportGraph): %v", err)
			}
			_ = parent.AddEdge(compose.START, "agent")
			_ = parent.AddEdge("agent", compose.END)
			pr, err := parent.Compile(ctx)
			if err != nil {
				return vkit.Failf("harness", "parent Compile: %v", err)
			}
			generate = func(ctx context.Context, in []*schema.Message) (*schema.Message, error) { return pr.Invoke(ctx, in) }
			stream = func(ctx context.Context, in []*schema.Message) (*schema.StreamReader[*schema.Message], error) {
				return pr.Stream(ctx, in)
			}
			m.Labels = append(m.Labels, "agent-exported-into-parent-graph")
		}
		multiCall, maxHit := false, false
		for _, mode := range []string{"generate", "stream"} {
			tag := mode
			ref := reference18(c, tag)
			run := &run18{tag: tag}
			rctx := context.WithValue(ctx, run18Key{}, run)
			var got *schema.Message
			var rerr error
			done := make(chan struct{})
			go func() {
				defer close(done)
				defer func() {
					if p := recover(); p != nil {
						rerr = fmt.Errorf("panic: %v", p)
					}
				}()
				if mode == "generate" {
					got, rerr = generate(rctx, in)
					return
				}
				sr, err := stream(rctx, in)
				if err != nil {
					rerr = err
					return
				}
				defer sr.Close()
				var chunks []*schema.Message
				for {
					ch, err := sr.Recv()
					if err == io.EOF {
						break
					}
					if err != nil {
						rerr = err
						return
					}
					chunks = append(chunks, ch)
				}
				if len(chunks) == 1 {
					got = chunks[0]
				} else {
					got, rerr = schema.ConcatMessages(chunks)
				}
			}()
			select {
			case <-done:
			case <-time.After(30 * time.Second):
				return vkit.Failf("agent-does-not-stop", "%s did not return within 30s (script of %d turns, MaxStep %d)", mode, len(c.Script), c.MaxStep)
			}
			if rerr != nil && strings.HasPrefix(rerr.Error(), "panic:") {
				return vkit.Failf("panic-escaped", "%s panicked: %v", mode, rerr)
			}
			for _, tcs := range ref.toolCalls {
				if len(tcs) >= 2 {
					multiCall = true
				}
			}
			if ref.fail == "maxsteps" {
				maxHit = true
				if rerr == nil || !(errors.Is(rerr, compose.ErrExceedMaxSteps) || strings.Contains(rerr.Error(), "exceeds max steps")) {
					return vkit.Failf("step-limit", "%s: the reference loop exceeds the step limit (MaxStep=%d); the agent returned %s / err=%v", mode, c.MaxStep, canonMsg(got), rerr)
				}
				continue
			}
			if rerr != nil {
				return vkit.Failf("agent-failed", "%s failed: %v (reference answer %q)", mode, rerr, ref.final)
			}
			run.mu.Lock()
			gotIn := append([]string(nil), run.modelIn...)
			gotTools := append([]string(nil), run.toolCalls...)
			run.mu.Unlock()
			if len(gotIn) != len(ref.modelIn) {
				return vkit.Failf("model-call-count", "%s: the model was called %d times, the reference loop calls it %d times", mode, len(gotIn), len(ref.modelIn))
			}
			for k := range gotIn {
				if gotIn[k] != ref.modelIn[k] {
					return &vkit.Failure{Kind: "model-history", Sig: "model-history", Msg: fmt.Sprintf("%s: model call #%d was given [%s], the reference history is [%s]", mode, k, vkit.Short(gotIn[k], 400), vkit.Short(ref.modelIn[k], 400))}
				}
			}
			var wantTools []string
			for _, tcs := range ref.toolCalls {
				wantTools = append(wantTools, tcs...)
			}
			sort.Strings(gotTools)
			sort.Strings(wantTools)
			if fmt.Sprint(gotTools) != fmt.Sprint(wantTools) {
				return vkit.Failf("tool-invocations", "%s: tools invoked %v, reference %v", mode, gotTools, wantTools)
			}
			gc := canonMsg(got)
			// the assistant's streamed tool-call-free final answer: compare content and role
			if gc != ref.final {
				return &vkit.Failure{Kind: "final-answer", Sig: "final-answer", Msg: fmt.Sprintf("%s returned %q, the reference loop returns %q", mode, gc, ref.final)}
			}
			if ref.directHit {
				m.Labels = append(m.Labels, "return-directly")
			}
		}
		refG := reference18(c, "generate")
		m.NonTrivial = (refG.turns >= 2 && multiCall) || (refG.directHit && refG.turns >= 2) || maxHit
		if maxHit {
			m.Labels = append(m.Labels, "step-limit-reached")
		}
		return nil
	})
	return f, m
}

func TestC18(t *testing.T) {
	rec := vkit.NewRecorder("C18")
	vkit.Prop(t, rec, genC18, checkC18)
}

func TestC18Replay(t *testing.T) {
	vkit.Replay(t, "C18", checkC18)
}
