package schema_test

// C08: streams deliver every item exactly once, in order, to every reader; copies see the same
// sequence; merges preserve per-source order and end after all sources; converts map item-wise
// and drop no-value items; closing every derived reader reaches the writer; nothing deadlocks.
//
// Generated: a forest of readers built from Pipe / array sources with Copy, MergeStreamReaders
// (static select and reflect.Select paths) and StreamReaderWithConvert (map / drop / fail),
// derivations also in the middle of a history, and a history of send / closeSend / recv / close
// operations.  Two execution modes: "seq" (one driver goroutine, writers asynchronous, receives
// only when the model guarantees delivery) and "conc" (one goroutine per reader and writer with
// generated yields; meant for -race).
//
// Oracle (model-based, online): every item carries (source id, sequence number); for each
// (reader, source) the model keeps the last sequence number seen.  A received item must come
// from a source below the reader, have a larger sequence number than the last one, every raw
// item skipped in between must be one that the converts on the path drop, and its value must be
// the source value pushed through the converts on the path.  EOF is legal only when every source
// below is closed and nothing deliverable is left.  Copy children that are leaves must agree.

import (
	"errors"
	"fmt"
	"io"
	"runtime"
	"strings"
	"sync"
	"testing"
	"time"

	"github.com/cloudwego/eino/internal/vkit"
	rapid "github.com/cloudwego/eino/internal/vrapid"
	"github.com/cloudwego/eino/schema"
)

type OpC08 struct {
	K   string `json:"k"`             // send | senderr | closesend | recv | close | copy | convert | merge | yield
	A   int    `json:"a,omitempty"`   // source / reader selector
	B   int    `json:"b,omitempty"`   // n for copy, fn kind for convert, count for merge
	Rs  []int  `json:"rs,omitempty"`  // merge operands
	Who int    `json:"who,omitempty"` // conc mode: unused
}

type CaseC08 struct {
	Caps   []int   `json:"caps"`   // pipe capacities (source ids 1..)
	Arrays []int   `json:"arrays"` // array source lengths (source ids after the pipes)
	Build  []OpC08 `json:"build"`  // derivations before anything is sent
	Script []OpC08 `json:"script"`
	Conc   bool    `json:"conc,omitempty"`
	Yields []int   `json:"yields,omitempty"`
}

type item struct {
	val int
	err string // non-empty: error item
	eof bool
}

func (i item) String() string {
	if i.eof {
		return "EOF"
	}
	if i.err != "" {
		return "err(" + i.err + ")"
	}
	return fmt.Sprint(i.val)
}

// convert kinds
const (
	fnMap = iota
	fnDrop3
	fnErr5
	fnKinds
)

type conv struct{ id, kind int }

func seqOf(v int) int { return v % 1000 }
func srcOf(v int) int { return (v % 1000000) / 1000 }

func applyConv(c conv, it item) (item, bool) {
	if it.err != "" {
		return it, true // errors pass through converts unchanged
	}
	switch c.kind {
	case fnMap:
		return item{val: it.val + 1000000*c.id}, true
	case fnDrop3:
		if seqOf(it.val)%3 == 0 {
			return item{}, false
		}
		return it, true
	case fnErr5:
		if seqOf(it.val)%5 == 0 {
			return item{err: fmt.Sprintf("conv-%d-%d", c.id, it.val%1000000)}, true
		}
		return it, true
	}
	return it, true
}

func applyChain(chain []conv, it item) (item, bool) {
	for _, c := range chain {
		var ok bool
		it, ok = applyConv(c, it)
		if !ok {
			return item{}, false
		}
	}
	return it, true
}

func convFunc(c conv) func(int) (int, error) {
	// a convert function may keep state between items (a running index, "same as the previous one" filters): it is
	// applied to every item of its source once, whatever is built on top of the converted stream.  This one
	// remembers what it was shown and answers a second showing of the same item with an error item.
	var mu sync.Mutex
	shown := map[int]bool{}
	return func(v int) (int, error) {
		mu.Lock()
		twice := shown[v]
		shown[v] = true
		mu.Unlock()
		if twice {
			return 0, fmt.Errorf("convert function %d applied to item %d a second time", c.id, v)
		}
		out, ok := applyConv(c, item{val: v})
		if !ok {
			if v%3 == 0 {
				// the no-value mark may arrive wrapped: the item is dropped all the same
				return 0, fmt.Errorf("filtered %d: %w", v, schema.ErrNoValue)
			}
			return 0, schema.ErrNoValue
		}
		if out.err != "" {
			return 0, errors.New(out.err)
		}
		return out.val, nil
	}
}

// parse the source and sequence number out of a received item
func identify(it item) (src, seq int, ok bool) {
	if it.err == "" {
		return srcOf(it.val), seqOf(it.val), true
	}
	var a, b int
	if n, _ := fmt.Sscanf(it.err, "e-%d-%d", &a, &b); n == 2 {
		return a, b, true
	}
	if n, _ := fmt.Sscanf(it.err, "conv-%d-%d", &a, &b); n == 2 {
		return srcOf(b), seqOf(b), true
	}
	return 0, 0, false
}

type source struct {
	id          int
	isArray     bool
	cap         int
	w           *schema.StreamWriter[int]
	mu          sync.Mutex
	issued      []item // raw items handed to the writer goroutine (arrays: all)
	closeIss    bool   // closeSend issued (arrays: true)
	cmds        chan func()
	done        chan struct{}
	sawClosed   bool
	sendResults []bool
}

type reader struct {
	sr       *schema.StreamReader[int]
	srcs     map[int][]conv // source id -> converts on the path (inner to outer)
	last     map[int]int    // source id -> last sequence number seen
	closed   bool
	gotEOF   bool
	family   int    // copy family id (children of one Copy call), 0 = none
	copySeq  []item // what this reader received since it was created by Copy (family members must agree)
	viaMerge bool
}

type world struct {
	c                    CaseC08
	sources              []*source
	live                 []*reader
	nextFn               int
	nextFam              int
	fams                 map[int][]*reader
	labels               map[string]bool
	recvCnt, skippedRecv int
}

func (w *world) fail(kind, format string, a ...any) *vkit.Failure {
	return vkit.Failf(kind, format, a...)
}

func newWorld(c CaseC08) *world {
	w := &world{c: c, labels: map[string]bool{}, fams: map[int][]*reader{}}
	id := 0
	for _, cp := range c.Caps {
		id++
		sr, sw := schema.Pipe[int](cp)
		s := &source{id: id, cap: cp, w: sw, cmds: make(chan func(), 64), done: make(chan struct{})}
		go func() {
			defer close(s.done)
			for f := range s.cmds {
				f()
			}
		}()
		w.sources = append(w.sources, s)
		w.live = append(w.live, &reader{sr: sr, srcs: map[int][]conv{id: nil}, last: map[int]int{id: 0}})
	}
	// array sources are consecutive sub-slices of one backing array (the way a caller cuts a slice into
	// batches): each has spare capacity that overlaps its neighbours, and the readers must never write there
	total := 0
	for _, n := range c.Arrays {
		total += n
	}
	backing := make([]int, total, total+4)
	off := 0
	for _, n := range c.Arrays {
		id++
		s := &source{id: id, isArray: true, closeIss: true}
		arr := backing[off : off+n]
		off += n
		for k := 0; k < n; k++ {
			arr[k] = id*1000 + k + 1
			s.issued = append(s.issued, item{val: arr[k]})
		}
		w.sources = append(w.sources, s)
		w.live = append(w.live, &reader{sr: schema.StreamReaderFromArray(arr), srcs: map[int][]conv{id: nil}, last: map[int]int{id: 0}})
	}
	return w
}

func (w *world) src(id int) *source { return w.sources[id-1] }

func (w *world) pickLive(sel int) (int, *reader) {
	var idxs []int
	for i, r := range w.live {
		if !r.closed {
			idxs = append(idxs, i)
		}
	}
	if len(idxs) == 0 {
		return -1, nil
	}
	i := idxs[abs(sel)%len(idxs)]
	return i, w.live[i]
}

func abs(x int) int {
	if x < 0 {
		return -x
	}
	return x
}

func cloneMaps(r *reader) (map[int][]conv, map[int]int) {
	s := map[int][]conv{}
	l := map[int]int{}
	for k, v := range r.srcs {
		s[k] = append([]conv(nil), v...)
	}
	for k, v := range r.last {
		l[k] = v
	}
	return s, l
}

// derive applies a copy / convert / merge operation to live readers.
func (w *world) derive(op OpC08) {
	switch op.K {
	case "copy":
		i, r := w.pickLive(op.A)
		if r == nil {
			return
		}
		n := 2 + abs(op.B)%3
		kids := r.sr.Copy(n)
		w.nextFam++
		var rs []*reader
		for _, k := range kids {
			s, l := cloneMaps(r)
			rs = append(rs, &reader{sr: k, srcs: s, last: l, family: w.nextFam, viaMerge: r.viaMerge})
		}
		w.fams[w.nextFam] = rs
		w.live = append(append(w.live[:i:i], rs...), w.live[i+1:]...)
		w.labels["copy"] = true
		if len(r.srcs) > 1 {
			w.labels["copy-of-merge"] = true
		}
	case "convert":
		i, r := w.pickLive(op.A)
		if r == nil {
			return
		}
		w.nextFn++
		c := conv{id: w.nextFn, kind: abs(op.B) % fnKinds}
		s, l := cloneMaps(r)
		for k := range s {
			s[k] = append(s[k], c)
		}
		nr := &reader{sr: schema.StreamReaderWithConvert(r.sr, convFunc(c)), srcs: s, last: l, viaMerge: r.viaMerge}
		w.live[i] = nr
		w.labels["convert"] = true
		if r.family != 0 {
			w.labels["convert-of-copy"] = true
		}
	case "merge":
		// operands must not share a source
		var chosen []int
		used := map[int]bool{}
		want := 2 + abs(op.B)%6
		var alive []int
		for i, r := range w.live {
			if !r.closed {
				alive = append(alive, i)
			}
		}
		if len(alive) < 2 {
			return
		}
		start := abs(op.A) % len(alive)
		for k := 0; k < len(alive) && len(chosen) < want; k++ {
			i := alive[(start+k)%len(alive)]
			ok := true
			for s := range w.live[i].srcs {
				if used[s] {
					ok = false
				}
			}
			if !ok {
				continue
			}
			for s := range w.live[i].srcs {
				used[s] = true
			}
			chosen = append(chosen, i)
		}
		if len(chosen) < 2 {
			return
		}
		var srs []*schema.StreamReader[int]
		s, l := map[int][]conv{}, map[int]int{}
		isChosen := map[int]bool{}
		for _, i := range chosen {
			srs = append(srs, w.live[i].sr)
			cs, cl := cloneMaps(w.live[i])
			for k, v := range cs {
				s[k] = v
			}
			for k, v := range cl {
				l[k] = v
			}
			isChosen[i] = true
			if w.live[i].family != 0 {
				w.labels["merge-of-copy"] = true
			}
		}
		nr := &reader{sr: schema.MergeStreamReaders(srs), srcs: s, last: l, viaMerge: true}
		var nl []*reader
		for i, r := range w.live {
			if !isChosen[i] {
				nl = append(nl, r)
			}
		}
		w.live = append(nl, nr)
		w.labels["merge"] = true
		if len(chosen) >= 6 {
			w.labels["merge>=6(reflect.Select)"] = true
		}
	}
}

// deliverable: the model guarantees that a Recv on r returns without further driver action.
func (w *world) deliverable(r *reader) bool {
	allClosed := true
	for sid, chain := range r.srcs {
		s := w.src(sid)
		s.mu.Lock()
		issued := append([]item(nil), s.issued...)
		ci := s.closeIss
		s.mu.Unlock()
		for _, raw := range issued {
			_, sq, _ := identify(raw)
			if sq <= r.last[sid] {
				continue
			}
			if _, ok := applyChain(chain, raw); ok {
				return true
			}
		}
		if !ci {
			allClosed = false
		}
	}
	return allClosed
}

// accept checks one received item against the model and advances it.
func (w *world) accept(r *reader, it item) *vkit.Failure {
	if it.eof {
		for sid, chain := range r.srcs {
			s := w.src(sid)
			s.mu.Lock()
			issued := append([]item(nil), s.issued...)
			ci := s.closeIss
			s.mu.Unlock()
			if !ci {
				return w.fail("early-eof", "reader got EOF but source %d was never closed", sid)
			}
			s.mu.Lock()
			told := s.sawClosed
			s.mu.Unlock()
			if told {
				return w.fail("writer-told-closed-early", "the writer of source %d was told 'closed' while this reader, derived from it, is still open", sid)
			}
			for _, raw := range issued {
				_, sq, _ := identify(raw)
				if sq > r.last[sid] {
					if _, ok := applyChain(chain, raw); ok {
						return w.fail("item-lost", "reader got EOF but item %v of source %d was never delivered to it (last seen seq %d)", raw, sid, r.last[sid])
					}
				}
			}
		}
		r.gotEOF = true
		return nil
	}
	if r.gotEOF {
		return w.fail("item-after-eof", "reader received %v after EOF", it)
	}
	sid, sq, ok := identify(it)
	if !ok {
		return w.fail("foreign-item", "reader received %v which no source sent", it)
	}
	chain, below := r.srcs[sid]
	if !below {
		return w.fail("foreign-item", "reader received %v of source %d which is not below it", it, sid)
	}
	if sq <= r.last[sid] {
		return w.fail("duplicate-or-reordered", "reader received %v (source %d seq %d) after already seeing seq %d of that source", it, sid, sq, r.last[sid])
	}
	s := w.src(sid)
	s.mu.Lock()
	issued := append([]item(nil), s.issued...)
	s.mu.Unlock()
	if sq > len(issued) {
		return w.fail("foreign-item", "reader received %v: source %d only sent %d items", it, sid, len(issued))
	}
	for k := r.last[sid] + 1; k < sq; k++ {
		if _, ok := applyChain(chain, issued[k-1]); ok {
			return w.fail("item-lost", "reader received %v (source %d seq %d) but never saw seq %d (last seen %d)", it, sid, sq, k, r.last[sid])
		}
	}
	want, ok := applyChain(chain, issued[sq-1])
	if !ok {
		return w.fail("dropped-item-delivered", "reader received %v although a convert on its path drops seq %d of source %d", it, sq, sid)
	}
	if want != it {
		return w.fail("wrong-value", "reader received %v, the model expects %v (source %d seq %d through %d converts)", it, want, sid, sq, len(chain))
	}
	r.last[sid] = sq
	return nil
}

func recvItem(sr *schema.StreamReader[int]) item {
	v, err := sr.Recv()
	if err == io.EOF {
		return item{eof: true}
	}
	if err != nil {
		return item{err: err.Error()}
	}
	return item{val: v}
}

func (w *world) issueSend(s *source, isErr bool) {
	s.mu.Lock()
	if s.closeIss || len(s.issued) >= 9 {
		s.mu.Unlock()
		return
	}
	sq := len(s.issued) + 1
	it := item{val: s.id*1000 + sq}
	if isErr {
		it = item{err: fmt.Sprintf("e-%d-%d", s.id, sq)}
	}
	s.issued = append(s.issued, it)
	s.mu.Unlock()
	s.cmds <- func() {
		s.mu.Lock()
		told := s.sawClosed
		s.mu.Unlock()
		if told {
			return
		}
		var closed bool
		if it.err != "" {
			closed = s.w.Send(0, errors.New(it.err))
		} else {
			closed = s.w.Send(it.val, nil)
		}
		s.mu.Lock()
		s.sendResults = append(s.sendResults, closed)
		if closed {
			s.sawClosed = true
		}
		s.mu.Unlock()
	}
}

func (w *world) issueClose(s *source) {
	s.mu.Lock()
	if s.closeIss {
		s.mu.Unlock()
		return
	}
	s.closeIss = true
	s.mu.Unlock()
	s.cmds <- func() { s.w.Close() }
}

func waitDone(ch <-chan struct{}, what string) *vkit.Failure {
	select {
	case <-ch:
		return nil
	case <-time.After(20 * time.Second):
		buf := make([]byte, 1<<16)
		n := runtime.Stack(buf, true)
		return &vkit.Failure{Kind: "blocked-forever", Sig: "blocked-forever", Msg: what + " did not return 20s after every reader was closed / every source ended", Detail: string(buf[:n])}
	}
}

var c08Rec *vkit.Recorder

func checkC08(c CaseC08) (*vkit.Failure, vkit.Meta) {
	var m vkit.Meta
	if len(c.Caps)+len(c.Arrays) == 0 {
		return nil, m
	}
	if c08Rec != nil {
		// a panic in a stream goroutine kills the process: the driver turns this file into the replay
		c08Rec.Current(c)
		defer c08Rec.ClearCurrent()
	}
	w := newWorld(c)
	body := func() *vkit.Failure {
		return vkit.Guard("panic", func() *vkit.Failure {
			for _, op := range c.Build {
				w.derive(op)
			}
			if c.Conc {
				return w.runConc()
			}
			return w.runSeq()
		})
	}
	var f *vkit.Failure
	if c08Rec != nil {
		f = vkit.Watchdog(c08Rec, c, 45*time.Second, nil, body)
	} else {
		f = body()
	}
	for l := range w.labels {
		m.Labels = append(m.Labels, l)
	}
	if c.Conc {
		m.Labels = append(m.Labels, "mode:conc")
	} else {
		m.Labels = append(m.Labels, "mode:seq")
	}
	depth2 := w.labels["copy"] && (w.labels["merge"] || w.labels["convert"])
	m.NonTrivial = depth2 && w.recvCnt >= 3 && (w.labels["copy-closed-before-sibling-done"] || w.labels["merge>=6(reflect.Select)"] || w.labels["send-after-all-closed"] || w.labels["derive-mid-history"])
	return f, m
}

func (w *world) finish() *vkit.Failure {
	// close every reader still open, let the writers finish, then probe: a writer whose readers are
	// all closed must be told
	for _, r := range w.live {
		if !r.closed {
			r.sr.Close()
			r.closed = true
		}
	}
	for _, s := range w.sources {
		if s.isArray {
			continue
		}
		// probe sends (only if the writer side is still open)
		s.mu.Lock()
		ci := s.closeIss
		s.mu.Unlock()
		if !ci {
			// forwarding goroutines (merges over copies/converts) notice the closure only when an item
			// reaches them: the writer is told after a bounded number of further sends
			bound := s.cap + 8 + 8*(len(w.c.Build)+len(w.c.Script))
			res := make(chan int, 1)
			s.cmds <- func() {
				falses := 0
				for k := 0; k < bound; k++ {
					if s.w.Send(s.id*1000+900+k%90, nil) {
						res <- falses
						return
					}
					falses++
					runtime.Gosched()
				}
				res <- -1
			}
			select {
			case n := <-res:
				w.labels["send-after-all-closed"] = true
				if n < 0 {
					return w.fail("writer-not-told", "every reader derived from pipe %d is closed, yet %d further sends were all accepted", s.id, bound)
				}
				if n > 0 && !w.labels["merge"] {
					return w.fail("writer-not-told", "every reader derived from pipe %d is closed (no forwarding goroutine involved), yet %d further sends were accepted before closed was reported", s.id, n)
				}
			case <-time.After(20 * time.Second):
				buf := make([]byte, 1<<16)
				n := runtime.Stack(buf, true)
				return &vkit.Failure{Kind: "blocked-forever", Sig: "blocked-forever", Msg: fmt.Sprintf("a Send on pipe %d blocks although every derived reader is closed", s.id), Detail: string(buf[:n])}
			}
			s.cmds <- func() { s.w.Close() }
		}
		close(s.cmds)
		if f := waitDone(s.done, fmt.Sprintf("writer of pipe %d", s.id)); f != nil {
			return f
		}
	}
	return nil
}

func (w *world) familyCheck(r *reader, it item) *vkit.Failure {
	if r.family == 0 {
		return nil
	}
	r.copySeq = append(r.copySeq, it)
	for _, sib := range w.fams[r.family] {
		if sib == r {
			continue
		}
		n := len(r.copySeq)
		if len(sib.copySeq) >= n && sib.copySeq[n-1] != it {
			return w.fail("copies-disagree", "copy received %v as item #%d, a sibling copy received %v at that position", it, n, sib.copySeq[n-1])
		}
	}
	return nil
}

func (w *world) runSeq() *vkit.Failure {
	for _, op := range w.c.Script {
		switch op.K {
		case "send", "senderr":
			if len(w.c.Caps) == 0 {
				continue
			}
			w.issueSend(w.sources[abs(op.A)%len(w.c.Caps)], op.K == "senderr")
		case "closesend":
			if len(w.c.Caps) == 0 {
				continue
			}
			w.issueClose(w.sources[abs(op.A)%len(w.c.Caps)])
		case "recv":
			_, r := w.pickLive(op.A)
			if r == nil {
				continue
			}
			if !w.deliverable(r) {
				w.skippedRecv++
				continue
			}
			it := recvItem(r.sr)
			w.recvCnt++
			if f := w.accept(r, it); f != nil {
				return f
			}
			if f := w.familyCheck(r, it); f != nil {
				return f
			}
		case "close":
			_, r := w.pickLive(op.A)
			if r == nil {
				continue
			}
			r.sr.Close()
			r.closed = true
			if r.family != 0 {
				for _, sib := range w.fams[r.family] {
					if sib != r && !sib.closed && !sib.gotEOF {
						w.labels["copy-closed-before-sibling-done"] = true
					}
				}
			}
		case "copy", "convert", "merge":
			w.derive(op)
			w.labels["derive-mid-history"] = true
		}
	}
	return w.finish()
}

// runConc: one goroutine per leaf and per writer, free running with generated yields.
func (w *world) runConc() *vkit.Failure {
	// project the script
	type leafPlan struct {
		recvs int
		toEOF bool
	}
	plans := make([]leafPlan, len(w.live))
	for _, op := range w.c.Script {
		switch op.K {
		case "recv":
			if len(w.live) > 0 {
				plans[abs(op.A)%len(w.live)].recvs++
			}
		case "close":
			// ignored: every leaf closes when its plan is done
		case "copy":
			if len(w.live) > 0 {
				plans[abs(op.A)%len(w.live)].toEOF = true
			}
		}
	}
	yields := w.c.Yields
	yi := 0
	var ymu sync.Mutex
	yield := func() {
		ymu.Lock()
		n := 0
		if len(yields) > 0 {
			n = yields[yi%len(yields)]
			yi++
		}
		ymu.Unlock()
		for k := 0; k < n; k++ {
			runtime.Gosched()
		}
	}
	// writers: every pipe gets its sends from the script, then closeSend
	for _, op := range w.c.Script {
		if (op.K == "send" || op.K == "senderr") && len(w.c.Caps) > 0 {
			s := w.sources[abs(op.A)%len(w.c.Caps)]
			w.issueSend(s, op.K == "senderr")
			s.cmds <- yield
		}
	}
	for _, s := range w.sources {
		if !s.isArray {
			w.issueClose(s)
		}
	}
	var wg sync.WaitGroup
	var fmu sync.Mutex
	var first *vkit.Failure
	var mmu sync.Mutex // the model is shared; accept under a lock (the streams are not)
	for i, r := range w.live {
		wg.Add(1)
		go func(i int, r *reader) {
			defer wg.Done()
			defer func() {
				if p := recover(); p != nil {
					fmu.Lock()
					if first == nil {
						first = vkit.Failf("panic", "panic in reader goroutine: %v", p)
					}
					fmu.Unlock()
				}
			}()
			p := plans[i]
			for k := 0; p.toEOF || k < p.recvs; k++ {
				yield()
				it := recvItem(r.sr)
				mmu.Lock()
				w.recvCnt++
				f := w.accept(r, it)
				if f == nil {
					f = w.familyCheck(r, it)
				}
				mmu.Unlock()
				if f != nil {
					fmu.Lock()
					if first == nil {
						first = f
					}
					fmu.Unlock()
					break
				}
				if it.eof {
					break
				}
			}
			yield()
			r.sr.Close()
			mmu.Lock()
			r.closed = true
			if r.family != 0 {
				for _, sib := range w.fams[r.family] {
					if sib != r && !sib.closed && !sib.gotEOF {
						w.labels["copy-closed-before-sibling-done"] = true
					}
				}
			}
			mmu.Unlock()
		}(i, r)
	}
	done := make(chan struct{})
	go func() { wg.Wait(); close(done) }()
	if f := waitDone(done, "a reader goroutine"); f != nil {
		return f
	}
	if first != nil {
		return first
	}
	for _, s := range w.sources {
		if s.isArray {
			continue
		}
		close(s.cmds)
		if f := waitDone(s.done, fmt.Sprintf("writer of pipe %d", s.id)); f != nil {
			return f
		}
	}
	return nil
}

func genC08(t *rapid.T) CaseC08 {
	c := CaseC08{}
	np := rapid.IntRange(0, 4).Draw(t, "nPipes")
	na := rapid.IntRange(0, 3).Draw(t, "nArrays")
	if np+na == 0 {
		np = 1
	}
	wide := rapid.IntRange(0, 6).Draw(t, "wide") == 0
	if wide {
		np = rapid.IntRange(5, 7).Draw(t, "manyPipes") // enough sources for the reflect.Select path
	}
	for i := 0; i < np; i++ {
		c.Caps = append(c.Caps, rapid.IntRange(0, 4).Draw(t, "cap"))
	}
	for i := 0; i < na; i++ {
		c.Arrays = append(c.Arrays, rapid.IntRange(0, 5).Draw(t, "arrLen"))
	}
	derive := func(label string) OpC08 {
		switch rapid.IntRange(0, 2).Draw(t, label) {
		case 0:
			return OpC08{K: "copy", A: rapid.IntRange(0, 20).Draw(t, "r"), B: rapid.IntRange(0, 2).Draw(t, "n")}
		case 1:
			return OpC08{K: "convert", A: rapid.IntRange(0, 20).Draw(t, "r"), B: rapid.IntRange(0, fnKinds-1).Draw(t, "fn")}
		default:
			return OpC08{K: "merge", A: rapid.IntRange(0, 20).Draw(t, "r"), B: rapid.IntRange(0, 5).Draw(t, "cnt")}
		}
	}
	nb := rapid.IntRange(0, 5).Draw(t, "nBuild")
	if wide {
		// one merge over (almost) all sources first
		c.Build = append(c.Build, OpC08{K: "merge", A: 0, B: 5})
	}
	for i := 0; i < nb; i++ {
		c.Build = append(c.Build, derive("buildOp"))
	}
	c.Conc = rapid.IntRange(0, 3).Draw(t, "conc") == 0
	ns := rapid.IntRange(3, 40).Draw(t, "nScript")
	for i := 0; i < ns; i++ {
		k := rapid.IntRange(0, 99).Draw(t, "opKind")
		switch {
		case k < 30:
			c.Script = append(c.Script, OpC08{K: "send", A: rapid.IntRange(0, 10).Draw(t, "p")})
		case k < 35:
			c.Script = append(c.Script, OpC08{K: "senderr", A: rapid.IntRange(0, 10).Draw(t, "p")})
		case k < 43:
			c.Script = append(c.Script, OpC08{K: "closesend", A: rapid.IntRange(0, 10).Draw(t, "p")})
		case k < 83:
			c.Script = append(c.Script, OpC08{K: "recv", A: rapid.IntRange(0, 20).Draw(t, "l")})
		case k < 90:
			c.Script = append(c.Script, OpC08{K: "close", A: rapid.IntRange(0, 20).Draw(t, "l")})
		default:
			if c.Conc {
				c.Script = append(c.Script, OpC08{K: "copy", A: rapid.IntRange(0, 20).Draw(t, "l")}) // conc: marks a leaf "read to EOF"
			} else {
				c.Script = append(c.Script, derive("midOp"))
			}
		}
	}
	if c.Conc {
		ny := rapid.IntRange(1, 6).Draw(t, "nYields")
		for i := 0; i < ny; i++ {
			c.Yields = append(c.Yields, rapid.IntRange(0, 3).Draw(t, "y"))
		}
	}
	return c
}

func TestC08(t *testing.T) {
	c08Rec = vkit.NewRecorder("C08")
	vkit.Prop(t, c08Rec, genC08, checkC08)
}

func TestC08Replay(t *testing.T) {
	c08Rec = vkit.NewRecorder("C08")
	vkit.Replay(t, "C08", checkC08)
}

var _ = strings.Contains
