package schema_test

// C14: chunk concatenation is total (value or error, never a panic), deterministic, does not
// modify its inputs, and is invariant under re-chunking: concatenating a prefix first and then
// the rest gives the same result, or fails in the same cases, as concatenating everything at
// once.  Text and tool-call arguments keep arrival order; tool-call fragments merge by index.
// Entry points: schema.ConcatMessages, schema.ConcatMessageStream, internal.ConcatItems (strings,
// maps incl. nested and nil values, message lists, a struct with and one without a registered
// concat function, ints).

import (
	"fmt"
	"reflect"
	"sort"
	"strings"
	"testing"

	"github.com/cloudwego/eino/internal"
	"github.com/cloudwego/eino/internal/vkit"
	rapid "github.com/cloudwego/eino/internal/vrapid"
	"github.com/cloudwego/eino/schema"
)

// ---- case description (plain data, rebuilt into fresh values for every evaluation) -------

type XVal struct {
	K string          `json:"k"` // s | i | f | b | nil | map | slice | nilptr
	S string          `json:"s,omitempty"`
	I int             `json:"i,omitempty"`
	M map[string]XVal `json:"m,omitempty"`
	L []XVal          `json:"l,omitempty"`
}

type TCDesc struct {
	Index *int            `json:"index,omitempty"`
	ID    string          `json:"id,omitempty"`
	Type  string          `json:"type,omitempty"`
	Name  string          `json:"name,omitempty"`
	Args  string          `json:"args,omitempty"`
	Extra map[string]XVal `json:"extra,omitempty"`
}

type MetaDesc struct {
	Finish   string   `json:"finish,omitempty"`
	Usage    *[3]int  `json:"usage,omitempty"`
	LogProbs []string `json:"logprobs,omitempty"`
	HasLP    bool     `json:"haslp,omitempty"`
}

type MsgDesc struct {
	Nil     bool            `json:"nil,omitempty"`
	Role    string          `json:"role,omitempty"`
	Name    string          `json:"name,omitempty"`
	TCID    string          `json:"tcid,omitempty"`
	Content string          `json:"content,omitempty"`
	Multi   int             `json:"multi,omitempty"`
	TCs     []TCDesc        `json:"tcs,omitempty"`
	Meta    *MetaDesc       `json:"meta,omitempty"`
	Extra   map[string]XVal `json:"extra,omitempty"`
	NoExtra bool            `json:"noextra,omitempty"`
}

type CaseC14 struct {
	Kind  string            `json:"kind"` // msg | msgs | str | map | custom | plain | int
	Split int               `json:"split"`
	Msgs  []MsgDesc         `json:"msgs,omitempty"`
	Lists [][]MsgDesc       `json:"lists,omitempty"`
	Strs  []string          `json:"strs,omitempty"`
	Maps  []map[string]XVal `json:"maps,omitempty"`
	Ints  []int             `json:"ints,omitempty"`
}

// VCustom has a registered concat function (joins A, sums N); VPlain has none.
type VCustom struct {
	A string
	N int
}
type VPlain struct {
	A string
	N int
}

func init() {
	internal.RegisterStreamChunkConcatFunc(func(cs []VCustom) (VCustom, error) {
		var out VCustom
		for _, c := range cs {
			out.A += c.A
			out.N += c.N
		}
		return out, nil
	})
}

func buildX(x XVal) any {
	switch x.K {
	case "s":
		return x.S
	case "i":
		return x.I
	case "f":
		return float64(x.I) / 4
	case "b":
		return x.I%2 == 0
	case "nil":
		return nil
	case "nilptr":
		return (*int)(nil)
	case "ns": // same kind as string, another type
		return xNamedStr(x.S)
	case "ni":
		return xNamedInt(x.I)
	case "ls": // same kind as []any, another type
		return []string{x.S, "t"}
	case "ms": // same kind as map[string]any, another type
		return map[string]string{"k": x.S}
	case "map":
		return buildXMap(x.M)
	case "nmap": // a named map type: concatenated like a map, and the result keeps its type
		return xNamedMap(buildXMap(x.M))
	case "slice":
		out := make([]any, 0, len(x.L))
		for _, e := range x.L {
			out = append(out, buildX(e))
		}
		return out
	}
	return nil
}

type xNamedStr string
type xNamedInt int
type xNamedMap map[string]any

func buildXMap(m map[string]XVal) map[string]any {
	if m == nil {
		return nil
	}
	out := make(map[string]any, len(m))
	for k, v := range m {
		out[k] = buildX(v)
	}
	return out
}

func buildMsg(d MsgDesc) *schema.Message {
	if d.Nil {
		return nil
	}
	m := &schema.Message{Role: schema.RoleType(d.Role), Name: d.Name, ToolCallID: d.TCID, Content: d.Content}
	for i := 0; i < d.Multi; i++ {
		m.MultiContent = append(m.MultiContent, schema.ChatMessagePart{Type: schema.ChatMessagePartTypeText, Text: fmt.Sprintf("p%d-%s", i, d.Content)})
	}
	for _, t := range d.TCs {
		tc := schema.ToolCall{ID: t.ID, Type: t.Type, Function: schema.FunctionCall{Name: t.Name, Arguments: t.Args}, Extra: buildXMap(t.Extra)}
		if t.Index != nil {
			v := *t.Index
			tc.Index = &v
		}
		m.ToolCalls = append(m.ToolCalls, tc)
	}
	if d.Meta != nil {
		m.ResponseMeta = &schema.ResponseMeta{FinishReason: d.Meta.Finish}
		if d.Meta.Usage != nil {
			m.ResponseMeta.Usage = &schema.TokenUsage{PromptTokens: d.Meta.Usage[0], CompletionTokens: d.Meta.Usage[1], TotalTokens: d.Meta.Usage[2]}
		}
		if d.Meta.HasLP {
			lp := &schema.LogProbs{}
			for _, tk := range d.Meta.LogProbs {
				lp.Content = append(lp.Content, schema.LogProb{Token: tk, LogProb: -0.5})
			}
			m.ResponseMeta.LogProbs = lp
		}
	}
	if !d.NoExtra {
		m.Extra = buildXMap(d.Extra)
	}
	return m
}

// ---- generator ------------------------------------------------------------------------------

func genX(t *rapid.T, depth int) XVal {
	k := rapid.IntRange(0, 11).Draw(t, "xk")
	if depth >= 2 && k >= 8 {
		k = k % 8
	}
	if rapid.IntRange(0, 9).Draw(t, "xSameKind") == 0 {
		// values whose type shares its reflect.Kind with one of the ordinary types
		kind := []string{"ns", "ni", "ls", "ms", "nmap"}[rapid.IntRange(0, 4).Draw(t, "xSameKindK")]
		if kind == "nmap" {
			if depth >= 2 {
				return XVal{K: "nmap", M: map[string]XVal{"a": {K: "s", S: "x"}}}
			}
			return XVal{K: "nmap", M: genXMap(t, depth+1)}
		}
		return XVal{K: kind, S: rapid.StringMatching("[a-c]{0,2}").Draw(t, "xss"), I: rapid.IntRange(0, 3).Draw(t, "xsi")}
	}
	switch k {
	case 0, 1, 2:
		return XVal{K: "s", S: rapid.StringMatching("[a-c]{0,3}").Draw(t, "xs")}
	case 3:
		return XVal{K: "i", I: rapid.IntRange(-2, 5).Draw(t, "xi")}
	case 4:
		return XVal{K: "f", I: rapid.IntRange(-2, 5).Draw(t, "xf")}
	case 5:
		return XVal{K: "b", I: rapid.IntRange(0, 1).Draw(t, "xb")}
	case 6:
		return XVal{K: "nil"}
	case 7:
		return XVal{K: "nilptr"}
	case 8, 9:
		return XVal{K: "map", M: genXMap(t, depth+1)}
	default:
		n := rapid.IntRange(0, 2).Draw(t, "xln")
		x := XVal{K: "slice", L: []XVal{}}
		for i := 0; i < n; i++ {
			x.L = append(x.L, genX(t, depth+1))
		}
		return x
	}
}

func genXMap(t *rapid.T, depth int) map[string]XVal {
	n := rapid.IntRange(0, 3).Draw(t, "xmn")
	m := map[string]XVal{}
	for i := 0; i < n; i++ {
		m[[]string{"a", "b", "c", "d"}[rapid.IntRange(0, 3).Draw(t, "xmk")]] = genX(t, depth)
	}
	return m
}

func genMsg(t *rapid.T, first bool, consistent bool) MsgDesc {
	d := MsgDesc{}
	if rapid.IntRange(0, 39).Draw(t, "nilmsg") == 0 {
		d.Nil = true
		return d
	}
	str := func(l string, opts []string) string { return opts[rapid.IntRange(0, len(opts)-1).Draw(t, l)] }
	if consistent {
		d.Role = str("role", []string{"", "assistant", "assistant"})
		d.Name = str("name", []string{"", "", "bot"})
		d.TCID = str("tcid", []string{"", "", "call-1"})
	} else {
		d.Role = str("role", []string{"", "assistant", "tool", "user"})
		d.Name = str("name", []string{"", "bot", "other"})
		d.TCID = str("tcid", []string{"", "call-1", "call-2"})
	}
	d.Content = rapid.StringMatching("[a-d ]{0,4}").Draw(t, "content")
	if rapid.IntRange(0, 5).Draw(t, "multi") == 0 {
		d.Multi = rapid.IntRange(1, 2).Draw(t, "multiN")
	}
	ntc := rapid.IntRange(0, 3).Draw(t, "ntc")
	if rapid.IntRange(0, 2).Draw(t, "notc") == 0 {
		ntc = 0
	}
	if rapid.IntRange(0, 11).Draw(t, "manyTCs") == 0 {
		// long tool-call lists (ordering of more than a dozen merged entries)
		ntc = rapid.IntRange(4, 9).Draw(t, "ntcMany")
	}
	for i := 0; i < ntc; i++ {
		tc := TCDesc{}
		if rapid.IntRange(0, 4).Draw(t, "idxNil") != 0 {
			v := rapid.IntRange(0, 2).Draw(t, "idx")
			if ntc > 3 {
				v = rapid.IntRange(0, 6).Draw(t, "idxWide")
			}
			tc.Index = &v
		}
		if consistent && tc.Index != nil {
			// atomic fields consistent per index
			if rapid.Bool().Draw(t, "hasID") {
				tc.ID = fmt.Sprintf("id%d", *tc.Index)
			}
			if rapid.Bool().Draw(t, "hasType") {
				tc.Type = "function"
			}
			if rapid.Bool().Draw(t, "hasName") {
				tc.Name = fmt.Sprintf("tool%d", *tc.Index)
			}
		} else {
			tc.ID = str("tcidv", []string{"", "id0", "id1"})
			tc.Type = str("tctype", []string{"", "function", "other"})
			tc.Name = str("tcname", []string{"", "tool0", "tool1"})
		}
		tc.Args = rapid.StringMatching("[{}\":a-c0-9]{0,5}").Draw(t, "args")
		if rapid.IntRange(0, 4).Draw(t, "tcExtra") == 0 {
			tc.Extra = genXMap(t, 1)
		}
		d.TCs = append(d.TCs, tc)
	}
	if rapid.IntRange(0, 2).Draw(t, "meta") == 0 {
		md := &MetaDesc{Finish: str("finish", []string{"", "stop", "tool_calls", "length"})}
		if rapid.Bool().Draw(t, "usage") {
			md.Usage = &[3]int{rapid.IntRange(0, 9).Draw(t, "u0"), rapid.IntRange(0, 9).Draw(t, "u1"), rapid.IntRange(0, 9).Draw(t, "u2")}
		}
		if rapid.IntRange(0, 2).Draw(t, "lp") == 0 {
			md.HasLP = true
			n := rapid.IntRange(0, 2).Draw(t, "lpn")
			for i := 0; i < n; i++ {
				md.LogProbs = append(md.LogProbs, rapid.StringMatching("[a-c]{1,2}").Draw(t, "lptok"))
			}
		}
		d.Meta = md
	}
	switch rapid.IntRange(0, 3).Draw(t, "extraKind") {
	case 0:
		d.NoExtra = true
	default:
		d.Extra = genXMap(t, 0)
	}
	return d
}

func genC14(t *rapid.T) CaseC14 {
	c := CaseC14{}
	n := rapid.IntRange(2, 8).Draw(t, "n")
	c.Split = rapid.IntRange(1, n-1).Draw(t, "split")
	consistent := rapid.IntRange(0, 9).Draw(t, "consistent") < 7
	switch rapid.IntRange(0, 9).Draw(t, "kind") {
	case 0, 1, 2, 3, 4:
		c.Kind = "msg"
		for i := 0; i < n; i++ {
			c.Msgs = append(c.Msgs, genMsg(t, i == 0, consistent))
		}
	case 5:
		c.Kind = "msgs"
		l := rapid.IntRange(0, 3).Draw(t, "listLen")
		for i := 0; i < n; i++ {
			ll := l
			if rapid.IntRange(0, 9).Draw(t, "unequal") == 0 {
				ll = rapid.IntRange(0, 3).Draw(t, "otherLen")
			}
			var lst []MsgDesc
			for j := 0; j < ll; j++ {
				if rapid.IntRange(0, 2).Draw(t, "sparse") == 0 {
					lst = append(lst, MsgDesc{Nil: true})
				} else {
					md := genMsg(t, false, consistent)
					md.Nil = false
					lst = append(lst, md)
				}
			}
			c.Lists = append(c.Lists, lst)
		}
	case 6:
		c.Kind = "str"
		for i := 0; i < n; i++ {
			c.Strs = append(c.Strs, rapid.StringMatching("[a-c]{0,3}").Draw(t, "str"))
		}
	case 7:
		c.Kind = "map"
		for i := 0; i < n; i++ {
			c.Maps = append(c.Maps, genXMap(t, 0))
		}
	case 8:
		c.Kind = []string{"custom", "plain"}[rapid.IntRange(0, 1).Draw(t, "structKind")]
		for i := 0; i < n; i++ {
			c.Strs = append(c.Strs, rapid.StringMatching("[a-c]{0,2}").Draw(t, "sa"))
			c.Ints = append(c.Ints, rapid.IntRange(0, 2).Draw(t, "sn"))
		}
	default:
		c.Kind = "int"
		for i := 0; i < n; i++ {
			c.Ints = append(c.Ints, rapid.IntRange(-3, 3).Draw(t, "int"))
		}
	}
	return c
}

// ---- oracle -----------------------------------------------------------------------------------

type concatOut struct {
	v       any
	err     error
	panicV  any
	stackTr string
}

func safely(fn func() (any, error)) (out concatOut) {
	defer func() {
		if p := recover(); p != nil {
			out.panicV = p
		}
	}()
	v, err := fn()
	return concatOut{v: v, err: err}
}

// generic re-chunking harness: build(i,j) gives fresh chunks i..j-1; concat concatenates a list.
func lawCheck[T any](n, split int, build func() []T, concat func([]T) (T, error), entry string) *vkit.Failure {
	full := safely(func() (any, error) { return concat(build()) })
	if full.panicV != nil {
		return &vkit.Failure{Kind: "concat-panic", Sig: "concat-panic", Msg: fmt.Sprintf("%s panicked on %d chunks: %v", entry, n, full.panicV)}
	}
	// determinism + inputs untouched
	in2 := build()
	again := safely(func() (any, error) { return concat(in2) })
	if again.panicV != nil {
		return &vkit.Failure{Kind: "concat-panic", Sig: "concat-panic", Msg: fmt.Sprintf("%s panicked on the second evaluation: %v", entry, again.panicV)}
	}
	if (full.err == nil) != (again.err == nil) || (full.err == nil && !reflect.DeepEqual(full.v, again.v)) {
		return &vkit.Failure{Kind: "concat-nondeterministic", Sig: "concat-nondeterministic", Msg: fmt.Sprintf("%s: two evaluations on equal inputs differ: %v / %v vs %v / %v", entry, render(full.v), full.err, render(again.v), again.err)}
	}
	if !reflect.DeepEqual(in2, build()) {
		return &vkit.Failure{Kind: "concat-modifies-input", Sig: "concat-modifies-input", Msg: fmt.Sprintf("%s modified its input chunks", entry)}
	}
	// re-chunking: prefix first (a one-chunk prefix is the chunk itself, as the stream drain does)
	chunks := build()
	var head T
	var perr error
	if split == 1 {
		head = chunks[0]
	} else {
		p := safely(func() (any, error) { return concat(chunks[:split]) })
		if p.panicV != nil {
			return &vkit.Failure{Kind: "concat-panic", Sig: "concat-panic", Msg: fmt.Sprintf("%s panicked on the prefix of %d chunks: %v", entry, split, p.panicV)}
		}
		perr = p.err
		if perr == nil {
			head = p.v.(T)
		}
	}
	var two concatOut
	if perr != nil {
		two = concatOut{err: perr}
	} else {
		rest := append([]T{head}, chunks[split:]...)
		two = safely(func() (any, error) { return concat(rest) })
		if two.panicV != nil {
			return &vkit.Failure{Kind: "concat-panic", Sig: "concat-panic", Msg: fmt.Sprintf("%s panicked on prefix-result + rest: %v", entry, two.panicV)}
		}
	}
	if (full.err == nil) != (two.err == nil) {
		return &vkit.Failure{Kind: "rechunk-failure-differs", Sig: "rechunk-failure-differs", Msg: fmt.Sprintf("%s: all %d chunks at once -> err=%v; first %d then the rest -> err=%v", entry, n, full.err, split, two.err)}
	}
	if full.err == nil && !reflect.DeepEqual(full.v, two.v) {
		return &vkit.Failure{Kind: "rechunk-result-differs", Sig: "rechunk-result-differs", Msg: fmt.Sprintf("%s: all %d chunks at once -> %s; first %d then the rest -> %s", entry, n, render(full.v), split, render(two.v))}
	}
	return nil
}

func render(v any) string {
	switch x := v.(type) {
	case *schema.Message:
		if x == nil {
			return "<nil msg>"
		}
		return vkit.Short(fmt.Sprintf("%+v extra=%v meta=%+v tcs=%s", *x, x.Extra, renderMeta(x.ResponseMeta), renderTCs(x.ToolCalls)), 500)
	case []*schema.Message:
		var parts []string
		for _, m := range x {
			parts = append(parts, render(m))
		}
		return "[" + strings.Join(parts, " | ") + "]"
	}
	return vkit.Short(fmt.Sprintf("%#v", v), 400)
}

func renderMeta(m *schema.ResponseMeta) string {
	if m == nil {
		return "<nil>"
	}
	u := "<nil>"
	if m.Usage != nil {
		u = fmt.Sprintf("%+v", *m.Usage)
	}
	lp := "<nil>"
	if m.LogProbs != nil {
		lp = fmt.Sprintf("%+v", *m.LogProbs)
	}
	return fmt.Sprintf("{finish=%q usage=%s logprobs=%s}", m.FinishReason, u, lp)
}

func renderTCs(tcs []schema.ToolCall) string {
	var parts []string
	for _, tc := range tcs {
		idx := "nil"
		if tc.Index != nil {
			idx = fmt.Sprint(*tc.Index)
		}
		parts = append(parts, fmt.Sprintf("{idx=%s id=%q type=%q name=%q args=%q extra=%v}", idx, tc.ID, tc.Type, tc.Function.Name, tc.Function.Arguments, tc.Extra))
	}
	return "[" + strings.Join(parts, " ") + "]"
}

// refMessage checks what the statement pins down for a successful message concatenation.
func refMessage(ds []MsgDesc, got *schema.Message) *vkit.Failure {
	var content strings.Builder
	args := map[int]*strings.Builder{}
	var nilIdxArgs []string
	var idxs []int
	for _, d := range ds {
		content.WriteString(d.Content)
		for _, tc := range d.TCs {
			if tc.Index == nil {
				nilIdxArgs = append(nilIdxArgs, tc.Args)
				continue
			}
			if args[*tc.Index] == nil {
				args[*tc.Index] = &strings.Builder{}
				idxs = append(idxs, *tc.Index)
			}
			args[*tc.Index].WriteString(tc.Args)
		}
	}
	if got.Content != content.String() {
		return vkit.Failf("content-order", "Content is %q, the chunks join to %q", got.Content, content.String())
	}
	sort.Ints(idxs)
	want := len(nilIdxArgs) + len(idxs)
	if len(got.ToolCalls) != want {
		return vkit.Failf("toolcall-merge", "%d tool calls after concatenation, expected %d (un-indexed %d + distinct indices %d): %s", len(got.ToolCalls), want, len(nilIdxArgs), len(idxs), renderTCs(got.ToolCalls))
	}
	for i, a := range nilIdxArgs {
		tc := got.ToolCalls[i]
		if tc.Index != nil || tc.Function.Arguments != a {
			return vkit.Failf("toolcall-merge", "un-indexed tool call #%d should keep arrival order with arguments %q: %s", i, a, renderTCs(got.ToolCalls))
		}
	}
	for j, ix := range idxs {
		tc := got.ToolCalls[len(nilIdxArgs)+j]
		if tc.Index == nil || *tc.Index != ix || tc.Function.Arguments != args[ix].String() {
			return vkit.Failf("toolcall-merge", "tool call for index %d should carry the in-order join of its fragments %q: %s", ix, args[ix].String(), renderTCs(got.ToolCalls))
		}
	}
	return nil
}

func checkC14(c CaseC14) (*vkit.Failure, vkit.Meta) {
	m := vkit.Meta{Labels: []string{"kind:" + c.Kind}}
	var f *vkit.Failure
	switch c.Kind {
	case "msg":
		n := len(c.Msgs)
		if n < 2 || c.Split < 1 || c.Split >= n {
			return nil, m
		}
		build := func() []*schema.Message {
			out := make([]*schema.Message, n)
			for i, d := range c.Msgs {
				out[i] = buildMsg(d)
			}
			return out
		}
		f = lawCheck(n, c.Split, build, schema.ConcatMessages, "schema.ConcatMessages")
		if f == nil {
			f = lawCheck(n, c.Split, build, func(ms []*schema.Message) (*schema.Message, error) {
				return schema.ConcatMessageStream(schema.StreamReaderFromArray(ms))
			}, "schema.ConcatMessageStream")
		}
		if f == nil {
			f = lawCheck(n, c.Split, build, internal.ConcatItems[*schema.Message], "internal.ConcatItems[*Message]")
		}
		idxSet := map[int]bool{}
		nested, hasNil := false, false
		for _, d := range c.Msgs {
			for _, tc := range d.TCs {
				if tc.Index != nil {
					idxSet[*tc.Index] = true
				}
			}
			for _, x := range d.Extra {
				if x.K == "map" {
					nested = true
				}
				if x.K == "nil" {
					hasNil = true
				}
			}
		}
		if hasNil {
			m.Labels = append(m.Labels, "extra-has-nil-value")
		}
		if f == nil {
			out := safely(func() (any, error) { return schema.ConcatMessages(build()) })
			if out.err == nil {
				m.Labels = append(m.Labels, "concat-ok")
				f = refMessage(c.Msgs, out.v.(*schema.Message))
			} else {
				m.Labels = append(m.Labels, "concat-error")
			}
		}
		m.NonTrivial = n >= 3 && (len(idxSet) >= 2 || nested) && c.Split > 1
	case "msgs":
		n := len(c.Lists)
		if n < 2 || c.Split < 1 || c.Split >= n {
			return nil, m
		}
		build := func() [][]*schema.Message {
			out := make([][]*schema.Message, n)
			for i, l := range c.Lists {
				out[i] = make([]*schema.Message, len(l))
				for j, d := range l {
					out[i][j] = buildMsg(d)
				}
			}
			return out
		}
		f = lawCheck(n, c.Split, build, internal.ConcatItems[[]*schema.Message], "internal.ConcatItems[[]*Message]")
		m.NonTrivial = n >= 3 && c.Split > 1
	case "str":
		n := len(c.Strs)
		if n < 2 || c.Split < 1 || c.Split >= n {
			return nil, m
		}
		build := func() []string { return append([]string(nil), c.Strs...) }
		f = lawCheck(n, c.Split, build, internal.ConcatItems[string], "internal.ConcatItems[string]")
		if f == nil {
			if got, err := internal.ConcatItems(build()); err != nil || got != strings.Join(c.Strs, "") {
				f = vkit.Failf("content-order", "strings %q concatenate to %q (err=%v)", c.Strs, got, err)
			}
		}
		m.NonTrivial = n >= 3 && c.Split > 1
	case "map":
		n := len(c.Maps)
		if n < 2 || c.Split < 1 || c.Split >= n {
			return nil, m
		}
		build := func() []map[string]any {
			out := make([]map[string]any, n)
			for i, mm := range c.Maps {
				out[i] = buildXMap(mm)
			}
			return out
		}
		f = lawCheck(n, c.Split, build, internal.ConcatItems[map[string]any], "internal.ConcatItems[map[string]any]")
		if f == nil {
			// the same chunks as values of a named map type
			f = lawCheck(n, c.Split, func() []xNamedMap {
				ms := build()
				out := make([]xNamedMap, len(ms))
				for i, mm := range ms {
					out[i] = xNamedMap(mm)
				}
				return out
			}, internal.ConcatItems[xNamedMap], "internal.ConcatItems[named map type]")
		}
		nested := false
		for _, mm := range c.Maps {
			for _, x := range mm {
				if x.K == "map" {
					nested = true
				}
				if x.K == "nil" {
					m.Labels = append(m.Labels, "map-has-nil-value")
				}
			}
		}
		m.NonTrivial = n >= 3 && nested && c.Split > 1
	case "custom":
		n := len(c.Strs)
		if n < 2 || n != len(c.Ints) || c.Split < 1 || c.Split >= n {
			return nil, m
		}
		build := func() []VCustom {
			out := make([]VCustom, n)
			for i := range out {
				out[i] = VCustom{A: c.Strs[i], N: c.Ints[i]}
			}
			return out
		}
		f = lawCheck(n, c.Split, build, internal.ConcatItems[VCustom], "internal.ConcatItems[registered struct]")
		m.NonTrivial = n >= 3 && c.Split > 1
	case "plain":
		n := len(c.Strs)
		if n < 2 || n != len(c.Ints) || c.Split < 1 || c.Split >= n {
			return nil, m
		}
		build := func() []VPlain {
			out := make([]VPlain, n)
			for i := range out {
				out[i] = VPlain{A: c.Strs[i], N: c.Ints[i]}
			}
			return out
		}
		f = lawCheck(n, c.Split, build, internal.ConcatItems[VPlain], "internal.ConcatItems[unregistered struct]")
		m.NonTrivial = n >= 3 && c.Split > 1
	case "int":
		n := len(c.Ints)
		if n < 2 || c.Split < 1 || c.Split >= n {
			return nil, m
		}
		build := func() []int { return append([]int(nil), c.Ints...) }
		f = lawCheck(n, c.Split, build, internal.ConcatItems[int], "internal.ConcatItems[int]")
		m.NonTrivial = n >= 3 && c.Split > 1
	}
	return f, m
}

func TestC14(t *testing.T) {
	rec := vkit.NewRecorder("C14")
	vkit.Prop(t, rec, genC14, checkC14)
}

func TestC14Replay(t *testing.T) {
	vkit.Replay(t, "C14", checkC14)
}

func FuzzC14(f *testing.F) {
	f.Add([]byte{})
	f.Add([]byte{3, 1, 4, 1, 5, 9, 2, 6, 5, 3, 5, 8, 9, 7, 9, 3, 2, 3, 8, 4, 6, 2, 6, 4, 3, 3, 8, 3, 2, 7, 9, 5})
	f.Fuzz(rapid.MakeFuzz(func(rt *rapid.T) {
		c := genC14(rt)
		fl, _ := checkC14(c)
		if fl != nil && !vkit.Known("C14", fl.Sig) {
			rec := vkit.NewRecorder("C14")
			rec.WriteFail(c, fl)
			rt.Fatalf("VERIF-FAIL %s sig=%s: %s", fl.Kind, fl.Sig, fl.Msg)
		}
	}))
}
