package schema_test

// C13 (third clause): a panic inside a stream-forwarding goroutine surfaces as an error item on
// the merged stream; it is never swallowed, never kills the process, never hangs the reader.
// Generated: merges of 2-4 sources; some sources are converted readers (or copy children of
// converted readers) whose convert function panics at a generated item index; the reader lags by
// a generated amount so that the forwarding buffer is empty, partly filled or full at the time of
// the panic.  Oracle: per panicking source exactly the items before the panic arrive, followed by
// one error item that mentions the panic; other sources arrive complete; then EOF.

import (
	"fmt"
	"io"
	"runtime"
	"strings"
	"testing"
	"time"

	"github.com/cloudwego/eino/internal/vkit"
	rapid "github.com/cloudwego/eino/internal/vrapid"
	"github.com/cloudwego/eino/schema"
)

type FwdSrc struct {
	Kind    string `json:"kind"` // array | convert | child
	Len     int    `json:"len"`
	PanicAt int    `json:"panicat"` // -1: never
}

type CaseFwd struct {
	Srcs     []FwdSrc `json:"srcs"`
	LagMs    int      `json:"lagms"`    // the reader waits this long before its first Recv
	LagEvery int      `json:"lagevery"` // and yields after every n-th item (0 = never)
}

var fwdRec *vkit.Recorder

func checkFwd(c CaseFwd) (*vkit.Failure, vkit.Meta) {
	var m vkit.Meta
	if len(c.Srcs) < 2 {
		return nil, m
	}
	if fwdRec != nil {
		fwdRec.Current(c)
		defer fwdRec.ClearCurrent()
	}
	body := func() *vkit.Failure {
		return vkit.Guard("panic-escaped", func() *vkit.Failure {
			var srs []*schema.StreamReader[int]
			wantPanics := 0
			late := false
			for i, s := range c.Srcs {
				arr := make([]int, s.Len)
				for k := range arr {
					arr[k] = (i+1)*1000 + k
				}
				base := schema.StreamReaderFromArray(arr)
				if s.Kind == "array" {
					srs = append(srs, base)
					continue
				}
				pa := s.PanicAt
				src := i + 1
				cnt := 0
				conv := schema.StreamReaderWithConvert(base, func(v int) (int, error) {
					if cnt == pa {
						panic(fmt.Sprintf("injected forwarder panic in source %d at item %d", src, pa))
					}
					cnt++
					return v, nil
				})
				if pa >= 0 && pa < s.Len {
					wantPanics++
					if pa >= 6 {
						late = true
					}
				}
				if s.Kind == "child" {
					kids := conv.Copy(2)
					kids[1].Close()
					srs = append(srs, kids[0])
				} else {
					srs = append(srs, conv)
				}
			}
			merged := schema.MergeStreamReaders(srs)
			if c.LagMs > 0 {
				time.Sleep(time.Duration(c.LagMs) * time.Millisecond)
			}
			got := map[int][]int{}
			var errs []string
			n := 0
			for {
				v, err := merged.Recv()
				if err == io.EOF {
					break
				}
				if err != nil {
					errs = append(errs, err.Error())
				} else {
					got[v/1000] = append(got[v/1000], v%1000)
				}
				n++
				if c.LagEvery > 0 && n%c.LagEvery == 0 {
					runtime.Gosched()
				}
				if n > 200 {
					return vkit.Failf("stream-does-not-end", "more than 200 items from a merge of %d short sources", len(c.Srcs))
				}
			}
			merged.Close()
			m.Labels = append(m.Labels, fmt.Sprintf("panicking-sources:%d", wantPanics))
			if late {
				m.Labels = append(m.Labels, "panic-after-buffer-could-fill")
			}
			m.NonTrivial = wantPanics >= 1 && (late || c.LagMs > 0)
			panicErrs := 0
			for _, e := range errs {
				if strings.Contains(e, "injected forwarder panic") {
					panicErrs++
				}
			}
			if panicErrs != wantPanics {
				return &vkit.Failure{Kind: "forwarder-panic-swallowed", Sig: "forwarder-panic-swallowed", Msg: fmt.Sprintf("%d sources panic inside their forwarding goroutine, the merged stream delivered %d error items mentioning a panic (errors: %v) and then a clean EOF", wantPanics, panicErrs, shortList(errs))}
			}
			for i, s := range c.Srcs {
				want := s.Len
				if s.Kind != "array" && s.PanicAt >= 0 && s.PanicAt < s.Len {
					want = s.PanicAt
				}
				g := got[i+1]
				if len(g) != want {
					return vkit.Failf("forwarder-items", "source %d (%s, len %d, panic at %d): %d items arrived, expected %d", i+1, s.Kind, s.Len, s.PanicAt, len(g), want)
				}
				for k, v := range g {
					if v != k {
						return vkit.Failf("forwarder-items", "source %d: item #%d is %d", i+1, k, v)
					}
				}
			}
			return nil
		})
	}
	if fwdRec != nil {
		return vkit.Watchdog(fwdRec, c, 30*time.Second, nil, body), m
	}
	return body(), m
}

func shortList(es []string) []string {
	var out []string
	for _, e := range es {
		out = append(out, vkit.Short(e, 80))
	}
	return out
}

func genFwd(t *rapid.T) CaseFwd {
	c := CaseFwd{}
	n := rapid.IntRange(2, 4).Draw(t, "nSrc")
	for i := 0; i < n; i++ {
		s := FwdSrc{Kind: []string{"array", "convert", "convert", "child"}[rapid.IntRange(0, 3).Draw(t, "kind")], Len: rapid.IntRange(0, 14).Draw(t, "len"), PanicAt: -1}
		if s.Kind != "array" && rapid.IntRange(0, 3).Draw(t, "panics") != 0 {
			s.PanicAt = rapid.IntRange(0, 13).Draw(t, "panicAt")
		}
		c.Srcs = append(c.Srcs, s)
	}
	c.LagMs = []int{0, 0, 1, 3}[rapid.IntRange(0, 3).Draw(t, "lag")]
	c.LagEvery = rapid.IntRange(0, 3).Draw(t, "lagEvery")
	return c
}

func TestC13Forwarder(t *testing.T) {
	fwdRec = vkit.NewRecorder("C13")
	vkit.Prop(t, fwdRec, genFwd, checkFwd)
}

func TestC13ForwarderReplay(t *testing.T) {
	fwdRec = vkit.NewRecorder("C13")
	vkit.Replay(t, "C13", checkFwd)
}
