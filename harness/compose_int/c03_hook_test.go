//go:build verif

package compose

// C03 (white box): the task manager is driven directly by a driver that mirrors the run loop,
// with generated batches, generated completion order of gated bodies, and generated yields at
// the hook points of executor / submit / waitOne / updateChan (build tag verif).
// Oracle (history invariants): every submitted task is collected exactly once, only after its
// body returned, with its own output / error (panic -> error, post-processor applied once);
// waitAll returns exactly the outstanding set; at the end num == 0, the overflow list and the
// hand-off channel are empty; per task the hook events occur in the order submit -> returned ->
// pushed -> handoff -> received, each once; the first task of a batch runs on the submitting
// goroutine exactly when the documented condition holds; a run that cannot finish is detected by
// the no-progress watchdog.

import (
	"bytes"
	"container/list"
	"context"
	"fmt"
	"runtime"
	"strconv"
	"sync"
	"sync/atomic"
	"testing"
	"time"
	"unsafe"

	"github.com/cloudwego/eino/internal/vkit"
	rapid "github.com/cloudwego/eino/internal/vrapid"
)

// SetVerifHook lets the black-box tests (package compose_test) observe the task manager.
// overflow is the length of the finished-but-uncollected list, valid at "exec.pushed" and "chan.handoff" only.
func SetVerifHook(f func(ctx context.Context, point, node string, tm, task uintptr, overflow int)) {
	if f == nil {
		setVerifTaskHook(nil)
		return
	}
	setVerifTaskHook(func(point string, tm *taskManager, ta *task) {
		node := ""
		if ta != nil {
			node = ta.nodeKey
		}
		ov := -1
		if point == "exec.pushed" || point == "chan.handoff" {
			ov = tm.l.Len()
		}
		var ctx context.Context
		if ta != nil {
			ctx = ta.ctx // carries the harness' per-call environment: events of other runs can be told apart
		}
		f(ctx, point, node, uintptr(unsafe.Pointer(tm)), uintptr(unsafe.Pointer(ta)), ov)
	})
}

type Task03 struct {
	Gate  bool `json:"gate,omitempty"`
	Panic bool `json:"panic,omitempty"`
	Err   bool `json:"err,omitempty"`
	Post  bool `json:"post,omitempty"`
	Pre   bool `json:"pre,omitempty"`
}

type Batch03 struct {
	Tasks []Task03 `json:"tasks"`
	// eager mode: the batch is submitted after this many further collections (0 = at once)
	After int `json:"after"`
}

type CaseC03W struct {
	NeedAll bool           `json:"needall"`
	Batches []Batch03      `json:"batches"`
	Delays  map[string]int `json:"delays"`  // hook point -> number of yields
	Release []int          `json:"release"` // picks among the waiting gated bodies
}

var c03Points = []string{"exec.returned", "exec.pushed", "exec.unlocked", "submit.async", "submit.sync", "wait.before", "wait.received", "wait.refilled", "chan.handoff"}

func genC03W(t *rapid.T) CaseC03W {
	c := CaseC03W{NeedAll: rapid.Bool().Draw(t, "needAll"), Delays: map[string]int{}}
	nb := rapid.IntRange(1, 3).Draw(t, "batches")
	for b := 0; b < nb; b++ {
		bt := Batch03{After: rapid.IntRange(0, 3).Draw(t, "after")}
		for i := rapid.IntRange(1, 8).Draw(t, "tasks"); i > 0; i-- {
			k := rapid.IntRange(0, 11).Draw(t, "kind")
			bt.Tasks = append(bt.Tasks, Task03{Gate: rapid.IntRange(0, 2).Draw(t, "gate") > 0, Panic: k == 0, Err: k == 1, Post: k >= 8, Pre: k == 7})
		}
		c.Batches = append(c.Batches, bt)
	}
	for _, p := range c03Points {
		c.Delays[p] = rapid.IntRange(0, 3).Draw(t, "delay")
	}
	for i := 0; i < 12; i++ {
		c.Release = append(c.Release, rapid.IntRange(0, 7).Draw(t, "rel"))
	}
	return c
}

func goid() int {
	var buf [64]byte
	n := runtime.Stack(buf[:], false)
	f := bytes.Fields(buf[:n])
	id, _ := strconv.Atoi(string(f[1]))
	return id
}

type body03 struct {
	key      string
	spec     Task03
	returned int32
	ranOn    int
	posted   int32
	pred     int32
}

type gates03 struct {
	mu      sync.Mutex
	cond    *sync.Cond
	waiting []string
	open    map[string]bool
	all     bool
}

func (g *gates03) wait(key string) {
	g.mu.Lock()
	g.waiting = append(g.waiting, key)
	for !g.open[key] && !g.all {
		g.cond.Wait()
	}
	for i, k := range g.waiting {
		if k == key {
			g.waiting = append(g.waiting[:i], g.waiting[i+1:]...)
			break
		}
	}
	g.mu.Unlock()
}

var c03wRec *vkit.Recorder
var c03HookMu sync.Mutex // the hook is a package variable: one case at a time

func checkC03W(c CaseC03W) (*vkit.Failure, vkit.Meta) {
	var m vkit.Meta
	if len(c.Batches) == 0 {
		return nil, m
	}
	c03HookMu.Lock()
	defer c03HookMu.Unlock()
	var progress int64
	type ev struct {
		point string
		task  *task
		ov    int
	}
	var evMu sync.Mutex
	var evs []ev
	tm := &taskManager{needAll: c.NeedAll, l: list.New(), done: make(chan *task, 1)}
	setVerifTaskHook(func(point string, t *taskManager, ta *task) {
		if t != tm {
			return
		}
		atomic.AddInt64(&progress, 1)
		ov := -1
		if point == "exec.pushed" || point == "chan.handoff" {
			ov = t.l.Len()
		}
		evMu.Lock()
		evs = append(evs, ev{point, ta, ov})
		evMu.Unlock()
		for i := 0; i < c.Delays[point]; i++ {
			runtime.Gosched()
		}
	})
	defer setVerifTaskHook(nil)
	gates := &gates03{open: map[string]bool{}}
	gates.cond = sync.NewCond(&gates.mu)
	bodies := map[*composableRunnable]*body03{}
	posts := map[*composableRunnable]*body03{}
	pres := map[*composableRunnable]*body03{}
	tm.runWrapper = func(ctx context.Context, r *composableRunnable, input any, opts ...any) (any, error) {
		atomic.AddInt64(&progress, 1)
		if b, ok := posts[r]; ok {
			atomic.AddInt32(&b.posted, 1)
			return fmt.Sprint(input) + "+post", nil
		}
		if b, ok := pres[r]; ok {
			atomic.AddInt32(&b.pred, 1)
			return fmt.Sprint(input) + "+pre", nil
		}
		b := bodies[r]
		b.ranOn = goid()
		defer atomic.StoreInt32(&b.returned, 1)
		if b.spec.Gate {
			gates.wait(b.key)
		}
		if b.spec.Panic {
			panic("injected panic in " + b.key)
		}
		if b.spec.Err {
			return nil, fmt.Errorf("injected error in %s", b.key)
		}
		return "out:" + b.key + ":" + fmt.Sprint(input), nil
	}
	// build the tasks
	var batches [][]*task
	byTask := map[*task]*body03{}
	total := 0
	for bi, bt := range c.Batches {
		var ts []*task
		for ti, sp := range bt.Tasks {
			b := &body03{key: fmt.Sprintf("b%dt%d", bi, ti), spec: sp}
			act := &composableRunnable{}
			bodies[act] = b
			call := &chanCall{action: act}
			if sp.Post {
				call.postProcessor = &composableRunnable{}
				posts[call.postProcessor] = b
			}
			if sp.Pre {
				call.preProcessor = &composableRunnable{}
				pres[call.preProcessor] = b
			}
			ta := &task{ctx: context.Background(), nodeKey: b.key, call: call, input: "in"}
			byTask[ta] = b
			ts = append(ts, ta)
			total++
		}
		batches = append(batches, ts)
	}
	var result *vkit.Failure
	driverDone := make(chan struct{})
	stopRel := make(chan struct{})
	maxWaiting := 0
	// releaser: opens gates in the generated order whenever the set of waiting bodies is quiescent
	go func() {
		k := 0
		for {
			select {
			case <-stopRel:
				return
			default:
			}
			gates.mu.Lock()
			w1 := len(gates.waiting)
			gates.mu.Unlock()
			if w1 == 0 {
				time.Sleep(20 * time.Microsecond)
				continue
			}
			time.Sleep(100 * time.Microsecond)
			gates.mu.Lock()
			if len(gates.waiting) == w1 {
				if w1 > maxWaiting {
					maxWaiting = w1
				}
				pick := gates.waiting[c.Release[k%len(c.Release)]%w1]
				k++
				gates.open[pick] = true
				gates.cond.Broadcast()
			}
			gates.mu.Unlock()
		}
	}()
	f := vkit.Watchdog(c03wRec, c, 20*time.Second, func() int64 { return atomic.LoadInt64(&progress) }, func() *vkit.Failure {
		defer close(driverDone)
		return vkit.Guard("panic-escaped", func() *vkit.Failure {
			driver := goid()
			collected := map[*task]int{}
			outstanding := map[*task]bool{}
			ncollected := 0
			collect := func(ts []*task) *vkit.Failure {
				for _, ta := range ts {
					b := byTask[ta]
					if b == nil {
						return vkit.Failf("foreign-task-collected", "wait returned a task that was never submitted")
					}
					collected[ta]++
					ncollected++
					if collected[ta] > 1 {
						return &vkit.Failure{Kind: "task-collected-twice", Sig: "task-collected-twice", Msg: fmt.Sprintf("task %s was returned by wait %d times", b.key, collected[ta])}
					}
					if !outstanding[ta] {
						return vkit.Failf("task-collected-before-submit", "task %s collected while not outstanding", b.key)
					}
					delete(outstanding, ta)
					if atomic.LoadInt32(&b.returned) != 1 {
						return &vkit.Failure{Kind: "collected-before-body-returned", Sig: "collected-before-body-returned", Msg: fmt.Sprintf("task %s was collected although its body has not returned", b.key)}
					}
					in := "in"
					if b.spec.Pre {
						in = "in+pre"
					}
					wantOut := "out:" + b.key + ":" + in
					switch {
					case b.spec.Panic:
						if ta.err == nil || ta.output != nil {
							return &vkit.Failure{Kind: "panic-not-task-error", Sig: "panic-not-task-error", Msg: fmt.Sprintf("task %s panicked; collected with err=%v output=%v", b.key, ta.err, ta.output)}
						}
					case b.spec.Err:
						if ta.err == nil {
							return vkit.Failf("task-error-lost", "task %s failed; collected without error", b.key)
						}
					default:
						if b.spec.Post {
							wantOut += "+post"
						}
						if ta.err != nil || fmt.Sprint(ta.output) != wantOut {
							return &vkit.Failure{Kind: "task-output", Sig: "task-output", Msg: fmt.Sprintf("task %s collected with output %v err %v, want %q", b.key, ta.output, ta.err, wantOut)}
						}
						if b.spec.Post && atomic.LoadInt32(&b.posted) != 1 {
							return vkit.Failf("post-processor-count", "task %s: post-processor ran %d times", b.key, b.posted)
						}
					}
				}
				return nil
			}
			submit := func(ts []*task) *vkit.Failure {
				wantSync := tm.num == 0 && (len(ts) == 1 || tm.needAll)
				for _, ta := range ts {
					outstanding[ta] = true
				}
				if err := tm.submit(ts); err != nil {
					return vkit.Failf("submit-error", "submit: %v", err)
				}
				first := byTask[ts[0]]
				ranSync := atomic.LoadInt32(&first.returned) == 1 && first.ranOn == driver
				if wantSync != ranSync {
					// a body that already returned on another goroutine is also "returned": ranOn decides
					if wantSync || first.ranOn == driver {
						return &vkit.Failure{Kind: "sync-task-rule", Sig: "sync-task-rule", Msg: fmt.Sprintf("first task %s of a batch of %d (needAll=%v, outstanding before=%v): expected synchronous=%v, ran on submitting goroutine=%v", first.key, len(ts), tm.needAll, !wantSync && len(ts) != 1, wantSync, first.ranOn == driver)}
					}
				}
				for _, ta := range ts[1:] {
					if b := byTask[ta]; atomic.LoadInt32(&b.returned) == 1 && b.ranOn == driver {
						return vkit.Failf("sync-task-rule", "task %s (not first of its batch) ran on the submitting goroutine", b.key)
					}
				}
				return nil
			}
			if c.NeedAll {
				for _, ts := range batches {
					if f := submit(ts); f != nil {
						return f
					}
					want := len(outstanding)
					got, err := tm.wait()
					if err != nil {
						return vkit.Failf("wait-error", "wait: %v", err)
					}
					if len(got) != want {
						return &vkit.Failure{Kind: "waitall-incomplete", Sig: "waitall-incomplete", Msg: fmt.Sprintf("waitAll returned %d tasks while %d were outstanding", len(got), want)}
					}
					if f := collect(got); f != nil {
						return f
					}
				}
			} else {
				next := 0
				since := 0
				for {
					for next < len(batches) && (since >= c.Batches[next].After || len(outstanding) == 0) {
						if f := submit(batches[next]); f != nil {
							return f
						}
						next++
						since = 0
					}
					got, err := tm.wait()
					if err != nil {
						return vkit.Failf("wait-error", "wait: %v", err)
					}
					if len(got) == 0 {
						if len(outstanding) != 0 {
							return &vkit.Failure{Kind: "completion-lost", Sig: "completion-lost", Msg: fmt.Sprintf("wait reported nothing outstanding while %d submitted tasks were never collected", len(outstanding))}
						}
						if next >= len(batches) {
							break
						}
						continue
					}
					since += len(got)
					if f := collect(got); f != nil {
						return f
					}
				}
			}
			if ncollected != total || len(outstanding) != 0 {
				return &vkit.Failure{Kind: "completion-lost", Sig: "completion-lost", Msg: fmt.Sprintf("%d of %d tasks collected", ncollected, total)}
			}
			tm.mu.Lock()
			ll, dl := tm.l.Len(), len(tm.done)
			tm.mu.Unlock()
			if tm.num != 0 || ll != 0 || dl != 0 {
				return &vkit.Failure{Kind: "manager-not-drained", Sig: "manager-not-drained", Msg: fmt.Sprintf("after everything was collected: num=%d overflow list=%d channel=%d", tm.num, ll, dl)}
			}
			return nil
		})
	})
	close(stopRel)
	gates.mu.Lock()
	gates.all = true
	gates.cond.Broadcast()
	gates.mu.Unlock()
	result = f
	if result != nil {
		return result, m
	}
	// trace conformance
	evMu.Lock()
	trace := append([]ev(nil), evs...)
	evMu.Unlock()
	// per task: submit < returned < pushed < {handoff, received}; each exactly once.  (The hand-off event is
	// emitted by the sender after its send succeeded, so it may be recorded after the receiver's event.)
	stage := map[*task]int{}
	count := map[*task]map[string]int{}
	order := map[string]int{"submit": 1, "exec.returned": 2, "exec.pushed": 3}
	maxOv := 0
	for _, e := range trace {
		if e.ov > maxOv {
			maxOv = e.ov
		}
		p := e.point
		if p == "submit.async" || p == "submit.sync" {
			p = "submit"
		}
		if e.task == nil || byTask[e.task] == nil {
			continue
		}
		if count[e.task] == nil {
			count[e.task] = map[string]int{}
		}
		count[e.task][p]++
		if want, ok := order[p]; ok {
			if stage[e.task] != want-1 {
				return &vkit.Failure{Kind: "protocol-order", Sig: "protocol-order:" + p, Msg: fmt.Sprintf("task %s: event %s arrived at stage %d (expected stage %d)", byTask[e.task].key, e.point, stage[e.task], want-1)}, m
			}
			stage[e.task] = want
		} else if p == "chan.handoff" || p == "wait.received" {
			if stage[e.task] != 3 {
				return &vkit.Failure{Kind: "protocol-order", Sig: "protocol-order:" + p, Msg: fmt.Sprintf("task %s: event %s before the task was pushed (stage %d)", byTask[e.task].key, e.point, stage[e.task])}, m
			}
		}
	}
	for ta, b := range byTask {
		for _, p := range []string{"submit", "exec.returned", "exec.pushed", "chan.handoff", "wait.received"} {
			if count[ta][p] != 1 {
				return &vkit.Failure{Kind: "protocol-count", Sig: "protocol-count:" + p, Msg: fmt.Sprintf("task %s: event %s occurred %d times", b.key, p, count[ta][p])}, m
			}
		}
	}
	if maxOv >= 2 {
		m.Labels = append(m.Labels, "overflow-list>=2")
	}
	if maxWaiting >= 3 {
		m.Labels = append(m.Labels, "gated-bodies-outstanding>=3")
	}
	m.NonTrivial = maxOv >= 2 || maxWaiting >= 3
	return nil, m
}

func TestC03TaskManager(t *testing.T) {
	c03wRec = vkit.NewRecorder("C03")
	vkit.Prop(t, c03wRec, genC03W, checkC03W)
}

func TestC03TaskManagerReplay(t *testing.T) {
	c03wRec = vkit.NewRecorder("C03")
	vkit.Replay(t, "C03", checkC03W)
}
