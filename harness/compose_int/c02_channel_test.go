package compose

// C02 white-box sub-check: one dagChannel driven with every sequence of predecessor
// resolutions (each predecessor resolves once: it ran and routed here, or it was skipped),
// for every assignment of roles (control / data / both) to 1..4 predecessors.  After every
// event readiness, the skipped flag and the value set are compared with a small reference
// written from the statement.  Exhaustive within these bounds.

import (
	"fmt"
	"sort"
	"testing"

	"github.com/cloudwego/eino/internal/vkit"
)

type chanSeq struct {
	Roles   []string `json:"roles"`   // per predecessor: c | d | b
	Order   []int    `json:"order"`   // resolution order (indices)
	Outcome []bool   `json:"outcome"` // per predecessor: true = ran and routed, false = skipped
}

func permutations(n int) [][]int {
	if n == 0 {
		return [][]int{{}}
	}
	var out [][]int
	var rec func(cur []int, used []bool)
	rec = func(cur []int, used []bool) {
		if len(cur) == n {
			out = append(out, append([]int(nil), cur...))
			return
		}
		for i := 0; i < n; i++ {
			if !used[i] {
				used[i] = true
				rec(append(cur, i), used)
				used[i] = false
			}
		}
	}
	rec(nil, make([]bool, n))
	return out
}

func checkChanSeq(s chanSeq) *vkit.Failure {
	name := func(i int) string { return fmt.Sprintf("p%d", i) }
	var ctl, data []string
	for i, r := range s.Roles {
		if r == "c" || r == "b" {
			ctl = append(ctl, name(i))
		}
		if r == "d" || r == "b" {
			data = append(data, name(i))
		}
	}
	ch := dagChannelBuilder(ctl, data, func() any { return map[string]any(nil) }, func() streamReader { return nil }).(*dagChannel)
	resolved := map[int]bool{}
	for step, p := range s.Order {
		ran := s.Outcome[p]
		r := s.Roles[p]
		if ran {
			// same order as channelManager.updateAndGet: values first, then dependencies
			if r == "d" || r == "b" {
				if err := ch.reportValues(map[string]any{name(p): map[string]any{name(p): "v"}}); err != nil {
					return vkit.Failf("channel-error", "reportValues: %v", err)
				}
			}
			if r == "c" || r == "b" {
				ch.reportDependencies([]string{name(p)})
			}
		} else {
			ch.reportSkip([]string{name(p)})
		}
		resolved[p] = true
		// reference
		allCtlResolved, anyCtlRan, allCtlSkipped := true, false, true
		for i, rr := range s.Roles {
			if rr == "c" || rr == "b" {
				if !resolved[i] {
					allCtlResolved = false
					allCtlSkipped = false
				} else if s.Outcome[i] {
					anyCtlRan = true
					allCtlSkipped = false
				}
			}
		}
		allDataResolved := true
		var wantKeys []string
		for i, rr := range s.Roles {
			if rr == "d" || rr == "b" {
				if !resolved[i] {
					allDataResolved = false
				} else if s.Outcome[i] {
					wantKeys = append(wantKeys, name(i))
				}
			}
		}
		wantSkipped := allCtlSkipped
		wantReady := !wantSkipped && allCtlResolved && anyCtlRan && allDataResolved
		if ch.Skipped != wantSkipped {
			// the flag may only be set by a reportSkip call; a channel whose control predecessors were all
			// skipped earlier stays skipped
			if !(wantSkipped && !ch.Skipped) || !ran {
				return vkit.Failf("skip-flag", "after event %d (p%d ran=%v): Skipped=%v, reference says %v", step, p, ran, ch.Skipped, wantSkipped)
			}
		}
		v, ready, err := ch.get(false)
		if err != nil {
			return vkit.Failf("channel-error", "get: %v", err)
		}
		if ready != wantReady {
			return vkit.Failf("readiness", "after event %d (p%d ran=%v): ready=%v, reference says %v", step, p, ran, ready, wantReady)
		}
		if ready {
			m, _ := v.(map[string]any)
			var got []string
			for k := range m {
				got = append(got, k)
			}
			sort.Strings(got)
			sort.Strings(wantKeys)
			if fmt.Sprint(got) != fmt.Sprint(wantKeys) {
				return vkit.Failf("value-set", "ready with values from %v, reference says %v", got, wantKeys)
			}
			if step != len(s.Order)-1 {
				return vkit.Failf("readiness", "ready before every predecessor resolved (event %d of %d)", step, len(s.Order))
			}
		}
	}
	return nil
}

func TestC02ChannelEnum(t *testing.T) {
	rec := vkit.NewRecorder("C02")
	defer rec.Flush()
	roles := []string{"c", "d", "b"}
	for n := 1; n <= 4; n++ {
		perms := permutations(n)
		nr := 1
		for i := 0; i < n; i++ {
			nr *= 3
		}
		for ra := 0; ra < nr; ra++ {
			rs := make([]string, n)
			x := ra
			nc, nd := 0, 0
			for i := 0; i < n; i++ {
				rs[i] = roles[x%3]
				x /= 3
				if rs[i] != "d" {
					nc++
				}
				if rs[i] != "c" {
					nd++
				}
			}
			if nc == 0 || nc > 3 || nd > 3 {
				continue
			}
			for oc := 0; oc < 1<<uint(n); oc++ {
				out := make([]bool, n)
				mixed := false
				for i := 0; i < n; i++ {
					out[i] = oc&(1<<uint(i)) != 0
				}
				for i := 1; i < n; i++ {
					if out[i] != out[0] {
						mixed = true
					}
				}
				for _, p := range perms {
					s := chanSeq{Roles: rs, Order: p, Outcome: out}
					f := checkChanSeq(s)
					rec.Case(s, vkit.Meta{NonTrivial: mixed && n >= 2, Labels: []string{fmt.Sprintf("preds:%d", n)}})
					if f != nil {
						rec.WriteFail(s, f)
						t.Fatalf("VERIF-FAIL %s: %s (sequence %+v)", f.Kind, f.Msg, s)
					}
				}
			}
		}
	}
	rec.Add("channel_sequences_enumerated_exhaustively", 1)
}

func TestC02ChannelReplay(t *testing.T) {
	vkit.Replay(t, "C02", func(s chanSeq) (*vkit.Failure, vkit.Meta) {
		if len(s.Roles) == 0 {
			return nil, vkit.Meta{}
		}
		return checkChanSeq(s), vkit.Meta{}
	})
}
