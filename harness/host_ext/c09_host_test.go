package host_test

// C09 (host multi-agent): one MultiAgent used from several goroutines at once.
// Generated: 2-4 specialists (a single specialist is rejected by AddBranch) (invokable / streamable / chat-model, with or without system prompt),
// host prompt, the decision rule of the scripted host model (direct answer or hand-off, derived
// from the call's own input), chunking of model output, 2-8 goroutines x 1-3 calls, Generate and
// Stream mixed, per-call hand-off callbacks.
// Oracle: each call's answer equals the reference for its own input (host or the chosen specialist
// applied to that call's messages, which the specialist reads from the run's *state*), the hand-off
// callback of a call sees exactly that call's hand-off, -race is clean in eino frames.

import (
	"context"
	"fmt"
	"hash/fnv"
	"io"
	"strings"
	"sync"
	"testing"
	"time"

	"github.com/cloudwego/eino/components/model"
	"github.com/cloudwego/eino/flow/agent"
	"github.com/cloudwego/eino/flow/agent/multiagent/host"
	"github.com/cloudwego/eino/internal/vkit"
	rapid "github.com/cloudwego/eino/internal/vrapid"
	"github.com/cloudwego/eino/schema"
)

type SpecH struct {
	Name   string `json:"name"`
	Kind   string `json:"kind"` // inv | str | both | model
	Prompt string `json:"prompt,omitempty"`
}

type CaseC09H struct {
	Specs      []SpecH  `json:"specs"`
	HostPrompt string   `json:"hostPrompt,omitempty"`
	Salt       int      `json:"salt"`
	Chunks     int      `json:"chunks"`
	Workers    int      `json:"workers"`
	Calls      int      `json:"calls"`
	Input      []string `json:"input"` // message suffixes; each call prefixes its tag
	Callbacks  bool     `json:"callbacks"`
}

func genC09H(t *rapid.T) CaseC09H {
	c := CaseC09H{Salt: rapid.IntRange(0, 50).Draw(t, "salt"), Chunks: rapid.IntRange(1, 3).Draw(t, "chunks"),
		Workers: rapid.IntRange(2, 8).Draw(t, "workers"), Calls: rapid.IntRange(1, 3).Draw(t, "calls"), Callbacks: rapid.Bool().Draw(t, "cb")}
	for i := rapid.IntRange(2, 4).Draw(t, "nspec"); i > 0; i-- {
		s := SpecH{Name: fmt.Sprintf("sp%d", len(c.Specs)), Kind: []string{"inv", "str", "both", "model"}[rapid.IntRange(0, 3).Draw(t, "kind")]}
		if rapid.Bool().Draw(t, "hasPrompt") {
			s.Prompt = "P" + s.Name
		}
		c.Specs = append(c.Specs, s)
	}
	if rapid.Bool().Draw(t, "hostPrompt") {
		c.HostPrompt = "HP"
	}
	for i := rapid.IntRange(1, 3).Draw(t, "nmsg"); i > 0; i-- {
		c.Input = append(c.Input, rapid.StringMatching("[a-c]{0,3}").Draw(t, "msg"))
	}
	return c
}

func canonMsgs(msgs []*schema.Message) string {
	var sb strings.Builder
	for _, m := range msgs {
		if m == nil {
			sb.WriteString("<nil>;")
			continue
		}
		fmt.Fprintf(&sb, "%s:%s;", m.Role, m.Content)
	}
	return sb.String()
}

func decide(c CaseC09H, msgs []*schema.Message) int { // 0 = direct, k = specialist k-1
	h := fnv.New32a()
	// decision depends on the user messages only (the last one is enough to vary per call)
	for _, m := range msgs {
		if m.Role == schema.User {
			h.Write([]byte(m.Content))
		}
	}
	return int((h.Sum32() + uint32(c.Salt)) % uint32(len(c.Specs)+1))
}

type hostModel struct {
	c     CaseC09H
	tools []*schema.ToolInfo
}

func (m *hostModel) answer(msgs []*schema.Message) *schema.Message {
	d := decide(m.c, msgs)
	if d == 0 {
		return schema.AssistantMessage("host("+canonMsgs(msgs)+")", nil)
	}
	idx := 0
	return schema.AssistantMessage("", []schema.ToolCall{{Index: &idx, ID: "id", Function: schema.FunctionCall{Name: m.c.Specs[d-1].Name, Arguments: `{"reason":"` + canonMsgs(msgs) + `"}`}}})
}

func (m *hostModel) Generate(ctx context.Context, in []*schema.Message, opts ...model.Option) (*schema.Message, error) {
	return m.answer(in), nil
}

func chunkMsg(msg *schema.Message, n int) []*schema.Message {
	if len(msg.ToolCalls) > 0 || n <= 1 || len(msg.Content) < 2 {
		return []*schema.Message{msg}
	}
	var out []*schema.Message
	step := (len(msg.Content) + n - 1) / n
	for i := 0; i < len(msg.Content); i += step {
		e := i + step
		if e > len(msg.Content) {
			e = len(msg.Content)
		}
		out = append(out, &schema.Message{Role: msg.Role, Content: msg.Content[i:e]})
	}
	return out
}

func (m *hostModel) Stream(ctx context.Context, in []*schema.Message, opts ...model.Option) (*schema.StreamReader[*schema.Message], error) {
	return schema.StreamReaderFromArray(chunkMsg(m.answer(in), m.c.Chunks)), nil
}

func (m *hostModel) WithTools(tools []*schema.ToolInfo) (model.ToolCallingChatModel, error) {
	return &hostModel{c: m.c, tools: tools}, nil
}

type specModel struct {
	name   string
	chunks int
}

func (m *specModel) Generate(ctx context.Context, in []*schema.Message, opts ...model.Option) (*schema.Message, error) {
	return schema.AssistantMessage(m.name+"("+canonMsgs(in)+")", nil), nil
}

func (m *specModel) Stream(ctx context.Context, in []*schema.Message, opts ...model.Option) (*schema.StreamReader[*schema.Message], error) {
	return schema.StreamReaderFromArray(chunkMsg(schema.AssistantMessage(m.name+"("+canonMsgs(in)+")", nil), m.chunks)), nil
}

type handoffRec struct {
	mu   sync.Mutex
	seen []string
}

func (h *handoffRec) OnHandOff(ctx context.Context, info *host.HandOffInfo) context.Context {
	h.mu.Lock()
	h.seen = append(h.seen, info.ToAgentName+"|"+info.Argument)
	h.mu.Unlock()
	return ctx
}

func (h *handoffRec) get() []string {
	h.mu.Lock()
	defer h.mu.Unlock()
	return append([]string(nil), h.seen...)
}

func checkC09H(c CaseC09H) (*vkit.Failure, vkit.Meta) {
	var m vkit.Meta
	if len(c.Specs) == 0 || len(c.Input) == 0 || c.Workers < 1 || c.Calls < 1 {
		return nil, m
	}
	f := vkit.Guard("panic-escaped", func() *vkit.Failure {
		ctx := context.Background()
		cfg := &host.MultiAgentConfig{Host: host.Host{ToolCallingModel: &hostModel{c: c}, SystemPrompt: c.HostPrompt}, Name: "TOPHOST"}
		for _, s := range c.Specs {
			s := s
			sp := &host.Specialist{AgentMeta: host.AgentMeta{Name: s.Name, IntendedUse: "use " + s.Name}, SystemPrompt: s.Prompt}
			inv := func(ctx context.Context, in []*schema.Message, opts ...agent.AgentOption) (*schema.Message, error) {
				return schema.AssistantMessage(s.Name+"("+canonMsgs(in)+")", nil), nil
			}
			str := func(ctx context.Context, in []*schema.Message, opts ...agent.AgentOption) (*schema.StreamReader[*schema.Message], error) {
				return schema.StreamReaderFromArray(chunkMsg(schema.AssistantMessage(s.Name+"("+canonMsgs(in)+")", nil), c.Chunks)), nil
			}
			switch s.Kind {
			case "inv":
				sp.Invokable = inv
			case "str":
				sp.Streamable = str
			case "both":
				sp.Invokable, sp.Streamable = inv, str
			default:
				sp.ChatModel = &specModel{name: s.Name, chunks: c.Chunks}
			}
			cfg.Specialists = append(cfg.Specialists, sp)
		}
		ma, err := host.NewMultiAgent(ctx, cfg)
		if err != nil {
			return vkit.Failf("harness", "NewMultiAgent: %v", err)
		}
		n := c.Workers * c.Calls
		type res struct {
			got  string
			err  error
			mode string
			h    *handoffRec
		}
		results := make([]res, n)
		inputs := make([][]*schema.Message, n)
		for i := range inputs {
			for _, s := range c.Input {
				inputs[i] = append(inputs[i], schema.UserMessage(fmt.Sprintf("call%d%s", i, s)))
			}
		}
		start := make(chan struct{})
		var wg sync.WaitGroup
		for w := 0; w < c.Workers; w++ {
			wg.Add(1)
			go func(w int) {
				defer wg.Done()
				<-start
				for k := 0; k < c.Calls; k++ {
					i := w*c.Calls + k
					mode := []string{"generate", "stream"}[(i+c.Salt)%2]
					h := &handoffRec{}
					var opts []agent.AgentOption
					if c.Callbacks {
						opts = append(opts, host.WithAgentCallbacks(h))
					}
					var got *schema.Message
					var rerr error
					func() {
						defer func() {
							if p := recover(); p != nil {
								rerr = fmt.Errorf("panic: %v", p)
							}
						}()
						if mode == "generate" {
							got, rerr = ma.Generate(ctx, inputs[i], opts...)
							return
						}
						sr, err := ma.Stream(ctx, inputs[i], opts...)
						if err != nil {
							rerr = err
							return
						}
						defer sr.Close()
						var chunks []*schema.Message
						for {
							ch, err := sr.Recv()
							if err == io.EOF {
								break
							}
							if err != nil {
								rerr = err
								return
							}
							chunks = append(chunks, ch)
						}
						if len(chunks) == 1 {
							got = chunks[0]
						} else {
							got, rerr = schema.ConcatMessages(chunks)
						}
					}()
					r := res{err: rerr, mode: mode, h: h}
					if got != nil {
						r.got = got.Content
					}
					results[i] = r
				}
			}(w)
		}
		close(start)
		wg.Wait()
		handoffs := 0
		for i, rs := range results {
			hostIn := inputs[i]
			prompt := c.HostPrompt
			if prompt == "" {
				prompt = "decide which tool is best for the task and call only the best tool."
			}
			hostIn = append([]*schema.Message{schema.SystemMessage(prompt)}, hostIn...)
			d := decide(c, hostIn)
			var want string
			var wantHand []string
			if d == 0 {
				want = "host(" + canonMsgs(hostIn) + ")"
			} else {
				handoffs++
				s := c.Specs[d-1]
				in := inputs[i]
				if s.Kind == "model" && s.Prompt != "" {
					in = append([]*schema.Message{schema.SystemMessage(s.Prompt)}, in...)
				}
				want = s.Name + "(" + canonMsgs(in) + ")"
				wantHand = []string{s.Name + `|{"reason":"` + canonMsgs(hostIn) + `"}`}
			}
			if rs.err != nil {
				return vkit.Failf("concurrent-outcome", "call %d (%s, one of %d concurrent calls) failed: %v; alone it answers %q", i, rs.mode, n, rs.err, want)
			}
			if rs.got != want {
				return &vkit.Failure{Kind: "concurrent-output", Sig: "concurrent-output", Msg: fmt.Sprintf("call %d (%s, one of %d concurrent calls) returned %q, alone it returns %q", i, rs.mode, n, rs.got, want)}
			}
			if c.Callbacks {
				// the stream-mode hand-off callback reads a copy of the model stream and may trail the call
				deadline := time.Now().Add(5 * time.Second)
				for len(rs.h.get()) < len(wantHand) && time.Now().Before(deadline) {
					time.Sleep(time.Millisecond)
				}
				if got := rs.h.get(); fmt.Sprint(got) != fmt.Sprint(wantHand) {
					return &vkit.Failure{Kind: "handoff-callback-crossed", Sig: "handoff-callback-crossed", Msg: fmt.Sprintf("call %d: its hand-off callback saw %q, expected %q", i, got, wantHand)}
				}
			}
		}
		m.Labels = append(m.Labels, fmt.Sprintf("workers:%d", c.Workers))
		if handoffs > 0 && handoffs < n {
			m.Labels = append(m.Labels, "mixed-direct-and-handoff")
		}
		m.NonTrivial = n >= 3 && handoffs > 0
		return nil
	})
	return f, m
}

func TestC09Host(t *testing.T) {
	rec := vkit.NewRecorder("C09")
	vkit.Prop(t, rec, genC09H, checkC09H)
}

func TestC09HostReplay(t *testing.T) {
	vkit.Replay(t, "C09", checkC09H)
}
