package compose_test

// C12, pending-stream part: "a checkpoint read back from a store restores the channels [and] pending inputs that
// were written" - including a pending stream WITHOUT any chunk, which must come back as a stream without any
// chunk (not as one zero-valued chunk), and a non-empty one as its concatenation.
//
// Generated: pipelines of 2-5 stream-native (Transform) nodes over string / int chunks; a node either drops
// everything (emits no chunk), or marks what it saw (the marker tells "no chunk at all" from "some chunks" and
// carries their concatenation, so it does not depend on chunk boundaries), or forwards; interrupt-before /
// interrupt-after points at generated nodes; every call is a Stream call; histories resumed until complete,
// optionally on a freshly compiled runnable.
// Oracle: reference model = the fold of the node functions on (empty?, concatenation) - the uninterrupted run.

import (
	"context"
	"fmt"
	"io"
	"strings"
	"testing"

	"github.com/cloudwego/eino/compose"
	"github.com/cloudwego/eino/internal/gkit"
	"github.com/cloudwego/eino/internal/vkit"
	rapid "github.com/cloudwego/eino/internal/vrapid"
	"github.com/cloudwego/eino/schema"
)

type N12e struct {
	Kind   string `json:"kind"`   // drop | mark | pass
	Chunks int    `json:"chunks"` // mark: number of chunks of its output (>= 1)
	Before bool   `json:"before,omitempty"`
	After  bool   `json:"after,omitempty"`
}

type CaseC12e struct {
	Nodes []N12e   `json:"nodes"`
	In    []string `json:"in"` // input chunks (Transform call); may be empty
	Fresh bool     `json:"fresh,omitempty"`
	Ints  bool     `json:"ints,omitempty"` // chunk type int instead of string (markers are numbers)
}

func genC12e(t *rapid.T) CaseC12e {
	c := CaseC12e{Fresh: rapid.Bool().Draw(t, "fresh"), Ints: rapid.IntRange(0, 2).Draw(t, "ints") == 0}
	for i := rapid.IntRange(2, 5).Draw(t, "nNodes"); i > 0; i-- {
		c.Nodes = append(c.Nodes, N12e{Kind: []string{"drop", "mark", "mark", "pass"}[rapid.IntRange(0, 3).Draw(t, "kind")], Chunks: rapid.IntRange(1, 3).Draw(t, "chunks"),
			Before: rapid.IntRange(0, 2).Draw(t, "before") == 0, After: rapid.IntRange(0, 3).Draw(t, "after") == 0})
	}
	for i := rapid.IntRange(0, 3).Draw(t, "nIn"); i > 0; i-- {
		c.In = append(c.In, rapid.StringMatching("[a-c]{1,2}").Draw(t, "in"))
	}
	return c
}

// the value of a stream as far as the nodes can tell: whether it has any chunk, and the concatenation
type val12e struct {
	empty bool
	text  string // strings: concatenation; ints: decimal of the last chunk
}

func model12e(c CaseC12e, v val12e) val12e {
	for i, n := range c.Nodes {
		switch n.Kind {
		case "drop":
			v = val12e{empty: true}
		case "mark":
			if c.Ints {
				if v.empty {
					v = val12e{text: fmt.Sprint(1000 + i)}
				} else {
					v = val12e{text: fmt.Sprint(atoi12e(v.text)*3 + i + 1)}
				}
			} else if v.empty {
				v = val12e{text: fmt.Sprintf("<none@%d>", i)}
			} else {
				v = val12e{text: v.text + fmt.Sprintf("|%d", i)}
			}
		}
	}
	return v
}

func atoi12e(s string) int {
	n := 0
	fmt.Sscan(s, &n)
	return n
}

func drainTo12e[T any](sr *schema.StreamReader[T]) ([]T, error) {
	defer sr.Close()
	var out []T
	for {
		x, err := sr.Recv()
		if err == io.EOF {
			return out, nil
		}
		if err != nil {
			return out, err
		}
		out = append(out, x)
	}
}

func run12e[T any](c CaseC12e, toVal func([]T) val12e, fromVal func(v val12e, chunks int) []T, in []T, m *vkit.Meta) *vkit.Failure {
	ctx := context.Background()
	build := func() (compose.Runnable[T, T], error) {
		g := compose.NewGraph[T, T]()
		prev := compose.START
		var before, after []string
		for i, n := range c.Nodes {
			i, n := i, n
			key := fmt.Sprintf("e%d", i)
			one := CaseC12e{Nodes: make([]N12e, i+1), Ints: c.Ints}
			one.Nodes[i] = n
			for j := 0; j < i; j++ {
				one.Nodes[j] = N12e{Kind: "pass"}
			}
			if err := g.AddLambdaNode(key, compose.TransformableLambda(func(ctx context.Context, sr *schema.StreamReader[T]) (*schema.StreamReader[T], error) {
				cs, err := drainTo12e(sr)
				if err != nil {
					return nil, err
				}
				out := model12e(one, toVal(cs)) // the function of this node alone
				if out.empty {
					return schema.StreamReaderFromArray([]T{}), nil
				}
				return schema.StreamReaderFromArray(fromVal(out, n.Chunks)), nil
			})); err != nil {
				return nil, err
			}
			if err := g.AddEdge(prev, key); err != nil {
				return nil, err
			}
			prev = key
			if n.Before {
				before = append(before, key)
			}
			if n.After {
				after = append(after, key)
			}
		}
		if err := g.AddEdge(prev, compose.END); err != nil {
			return nil, err
		}
		return g.Compile(ctx, compose.WithCheckPointStore(store12e), compose.WithInterruptBeforeNodes(before), compose.WithInterruptAfterNodes(after))
	}
	store12e = gkit.NewByteStore()
	r, err := build()
	if err != nil {
		return vkit.Failf("compile-rejected-wellformed-graph", "%v", err)
	}
	want := model12e(c, toVal(in))
	interrupts := 0
	for call := 0; call < 40; call++ {
		if call > 0 && c.Fresh {
			if r, err = build(); err != nil {
				return vkit.Failf("compile-rejected-wellformed-graph", "%v", err)
			}
		}
		sr, err := r.Transform(ctx, schema.StreamReaderFromArray(append([]T(nil), in...)), compose.WithCheckPointID("e"))
		var got []T
		if err == nil {
			got, err = drainTo12e(sr)
		}
		if err != nil {
			if _, ok := compose.ExtractInterruptInfo(err); ok {
				interrupts++
				continue
			}
			return vkit.Failf("stream-history-fails", "call %d failed although no node fails: %s", call, shortErr(err))
		}
		m.Labels = append(m.Labels, fmt.Sprintf("interrupts:%d", interrupts))
		gv := toVal(got)
		if gv != want {
			return &vkit.Failure{Kind: "pending-stream-not-restored", Sig: "pending-stream-not-restored", Msg: fmt.Sprintf("after %d interrupts the output stream has chunks=%v value %q; the uninterrupted pipeline gives chunks=%v value %q (nodes %s)", interrupts, !gv.empty, gv.text, !want.empty, want.text, kinds12e(c))}
		}
		return nil
	}
	return vkit.Failf("history-does-not-complete", "still interrupted after 40 calls")
}

var store12e *gkit.ByteStore

func kinds12e(c CaseC12e) string {
	var ks []string
	for _, n := range c.Nodes {
		k := n.Kind
		if n.Before {
			k = ">" + k
		}
		if n.After {
			k += ">"
		}
		ks = append(ks, k)
	}
	return strings.Join(ks, ",")
}

func checkC12e(c CaseC12e) (*vkit.Failure, vkit.Meta) {
	var m vkit.Meta
	if len(c.Nodes) < 2 {
		return nil, m
	}
	for _, n := range c.Nodes {
		if n.Chunks < 1 || n.Kind == "" {
			return nil, m
		}
	}
	f := vkit.Guard("panic-escaped", func() *vkit.Failure {
		if c.Ints {
			var in []int
			for _, s := range c.In {
				in = append(in, len(s))
			}
			return run12e(c, func(cs []int) val12e {
				if len(cs) == 0 {
					return val12e{empty: true}
				}
				return val12e{text: fmt.Sprint(cs[len(cs)-1])}
			}, func(v val12e, chunks int) []int {
				out := make([]int, chunks)
				out[chunks-1] = atoi12e(v.text)
				return out
			}, in, &m)
		}
		return run12e(c, func(cs []string) val12e {
			if len(cs) == 0 {
				return val12e{empty: true}
			}
			return val12e{text: strings.Join(cs, "")}
		}, func(v val12e, chunks int) []string {
			out := make([]string, chunks)
			for i := range out {
				out[i] = v.text[len(v.text)*i/chunks : len(v.text)*(i+1)/chunks]
			}
			return out
		}, append([]string(nil), c.In...), &m)
	})
	// non-trivial: an empty stream is pending at an interrupt point
	pend := false
	v := val12e{empty: len(c.In) == 0}
	for i, n := range c.Nodes {
		if n.Before && v.empty {
			pend = true
		}
		one := CaseC12e{Nodes: make([]N12e, i+1), Ints: c.Ints}
		one.Nodes[i] = n
		v = model12e(one, v)
		if n.After && v.empty && i < len(c.Nodes)-1 {
			pend = true
		}
	}
	m.NonTrivial = pend
	return f, m
}

func TestC12Empty(t *testing.T) {
	rec := vkit.NewRecorder("C12")
	vkit.Prop(t, rec, genC12e, checkC12e)
}

func TestC12EmptyReplay(t *testing.T) {
	vkit.Replay(t, "C12", checkC12e)
}
