package compose_test

// C14, stream part: "stream drain + concat used by every stream-to-value conversion" - the framework's own
// concatenation of a whole stream (Invoke over a stream-only node, Collect feeding an invoke-only node) must
// equal concatenating all chunks at once, for every stream length: text keeps arrival order, map chunks merge
// per key.  Lengths are drawn around powers of two (buffer boundaries) as well as small.
// Oracle: reference concatenation written from the statement (join in arrival order; per key for maps).

import (
	"context"
	"fmt"
	"strings"
	"testing"

	"github.com/cloudwego/eino/compose"
	"github.com/cloudwego/eino/internal/vkit"
	rapid "github.com/cloudwego/eino/internal/vrapid"
	"github.com/cloudwego/eino/schema"
)

type CaseC14s struct {
	Kind  string `json:"kind"`  // str | map
	N     int    `json:"n"`     // number of chunks
	Where string `json:"where"` // node (Invoke over a stream-only node) | input (Collect into an invoke-only node)
	Keys  int    `json:"keys"`  // map: number of distinct keys the chunks are spread over
}

func genC14s(t *rapid.T) CaseC14s {
	c := CaseC14s{Kind: []string{"str", "map"}[rapid.IntRange(0, 1).Draw(t, "kind")], Where: []string{"node", "input"}[rapid.IntRange(0, 1).Draw(t, "where")],
		Keys: rapid.IntRange(1, 5).Draw(t, "keys")}
	switch rapid.IntRange(0, 2).Draw(t, "size") {
	case 0:
		c.N = rapid.IntRange(1, 12).Draw(t, "nSmall")
	case 1:
		c.N = (1 << uint(rapid.IntRange(3, 10).Draw(t, "pow"))) + rapid.IntRange(-2, 2).Draw(t, "off")
	default:
		c.N = rapid.IntRange(13, 1300).Draw(t, "nAny")
	}
	return c
}

func checkC14s(c CaseC14s) (*vkit.Failure, vkit.Meta) {
	m := vkit.Meta{Labels: []string{"kind:" + c.Kind, "where:" + c.Where}}
	if c.N < 1 || c.N > 5000 || c.Keys < 1 {
		return nil, m
	}
	switch {
	case c.N > 256:
		m.Labels = append(m.Labels, "chunks>256")
	case c.N > 16:
		m.Labels = append(m.Labels, "chunks>16")
	}
	m.NonTrivial = c.N >= 3
	f := vkit.Guard("panic-escaped", func() *vkit.Failure {
		ctx := context.Background()
		piece := func(i int) string { return fmt.Sprintf("<%d>", i) }
		if c.Kind == "str" {
			chunks := make([]string, c.N)
			for i := range chunks {
				chunks[i] = piece(i)
			}
			want := strings.Join(chunks, "")
			g := compose.NewGraph[string, string]()
			var l *compose.Lambda
			if c.Where == "node" {
				l = compose.StreamableLambda(func(ctx context.Context, in string) (*schema.StreamReader[string], error) {
					return schema.StreamReaderFromArray(append([]string(nil), chunks...)), nil
				})
			} else {
				l = compose.InvokableLambda(func(ctx context.Context, in string) (string, error) { return in, nil })
			}
			_ = g.AddLambdaNode("p", l)
			_ = g.AddEdge(compose.START, "p")
			_ = g.AddEdge("p", compose.END)
			r, err := g.Compile(ctx)
			if err != nil {
				return vkit.Failf("compile-rejected-wellformed-graph", "%v", err)
			}
			var got string
			if c.Where == "node" {
				got, err = r.Invoke(ctx, "x")
			} else {
				got, err = r.Collect(ctx, schema.StreamReaderFromArray(append([]string(nil), chunks...)))
			}
			if err != nil {
				return vkit.Failf("stream-concat-failed", "concatenating %d string chunks failed: %s", c.N, shortErr(err))
			}
			if got != want {
				return &vkit.Failure{Kind: "stream-concat-differs", Sig: "stream-concat-differs", Msg: fmt.Sprintf("%d string chunks through the framework (%s): %d bytes, all chunks at once give %d bytes; first difference at byte %d", c.N, c.Where, len(got), len(want), firstDiff(got, want))}
			}
			return nil
		}
		chunks := make([]map[string]any, c.N)
		want := map[string]string{}
		for i := range chunks {
			k := fmt.Sprintf("k%d", i%c.Keys)
			chunks[i] = map[string]any{k: piece(i)}
			want[k] += piece(i)
		}
		mk := func() []map[string]any {
			out := make([]map[string]any, len(chunks))
			for i, ch := range chunks {
				cp := map[string]any{}
				for k, v := range ch {
					cp[k] = v
				}
				out[i] = cp
			}
			return out
		}
		g := compose.NewGraph[map[string]any, map[string]any]()
		var l *compose.Lambda
		if c.Where == "node" {
			l = compose.StreamableLambda(func(ctx context.Context, in map[string]any) (*schema.StreamReader[map[string]any], error) {
				return schema.StreamReaderFromArray(mk()), nil
			})
		} else {
			l = compose.InvokableLambda(func(ctx context.Context, in map[string]any) (map[string]any, error) { return in, nil })
		}
		_ = g.AddLambdaNode("p", l)
		_ = g.AddEdge(compose.START, "p")
		_ = g.AddEdge("p", compose.END)
		r, err := g.Compile(ctx)
		if err != nil {
			return vkit.Failf("compile-rejected-wellformed-graph", "%v", err)
		}
		var got map[string]any
		if c.Where == "node" {
			got, err = r.Invoke(ctx, map[string]any{})
		} else {
			got, err = r.Collect(ctx, schema.StreamReaderFromArray(mk()))
		}
		if err != nil {
			return vkit.Failf("stream-concat-failed", "concatenating %d map chunks failed: %s", c.N, shortErr(err))
		}
		if len(got) != len(want) {
			return &vkit.Failure{Kind: "stream-concat-differs", Sig: "stream-concat-differs", Msg: fmt.Sprintf("%d map chunks over %d keys through the framework (%s): result has %d keys", c.N, c.Keys, c.Where, len(got))}
		}
		for k, w := range want {
			if gs, _ := got[k].(string); gs != w {
				return &vkit.Failure{Kind: "stream-concat-differs", Sig: "stream-concat-differs", Msg: fmt.Sprintf("%d map chunks over %d keys through the framework (%s): key %s has %d bytes, all chunks at once give %d; first difference at byte %d", c.N, c.Keys, c.Where, k, len(gs), len(w), firstDiff(gs, w))}
			}
		}
		return nil
	})
	return f, m
}

func firstDiff(a, b string) int {
	for i := 0; i < len(a) && i < len(b); i++ {
		if a[i] != b[i] {
			return i
		}
	}
	if len(a) < len(b) {
		return len(a)
	}
	return len(b)
}

func TestC14Stream(t *testing.T) {
	rec := vkit.NewRecorder("C14")
	vkit.Prop(t, rec, genC14s, checkC14s)
}

func TestC14StreamReplay(t *testing.T) {
	vkit.Replay(t, "C14", checkC14s)
}
