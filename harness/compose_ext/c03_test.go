//go:build verif

package compose_test

// C03 (black box): the result of a run does not depend on the order in which parallel nodes finish.
// Generated: graphs of every kind (nested; workflows use eager execution) whose lambda bodies are all
// gated; the completion controller opens the gates in a generated order; 0-3 yields are injected at each
// hook point of the task manager (build tag verif); a quarter of the cases contain a failing node.
// Oracle: (1) metamorphic - the run under the generated release order gives the same output / failure
// class and executed (node,input) multiset as the run under arrival order, and both equal the reference
// model; (2) the run returns only after every body that feeds END returned; (3) hook events: in each
// task manager every submitted task is received at most once, and exactly once when the run succeeds
// and every node leads to END; (4) no hang: no-progress watchdog.

import (
	"context"
	"fmt"
	"runtime"
	"sync"
	"sync/atomic"
	"testing"
	"time"

	"github.com/cloudwego/eino/compose"
	"github.com/cloudwego/eino/internal/gkit"
	"github.com/cloudwego/eino/internal/vkit"
	rapid "github.com/cloudwego/eino/internal/vrapid"
)

type CaseC03 struct {
	Spec     *gkit.Spec     `json:"spec"`
	Input    any            `json:"input"`
	Paradigm string         `json:"paradigm"`
	Release  []int          `json:"release"`
	Delays   map[string]int `json:"delays"`
}

var c03Points = []string{"exec.returned", "exec.pushed", "exec.unlocked", "submit.async", "submit.sync", "wait.before", "wait.received", "wait.refilled", "chan.handoff"}

func genC03(t *rapid.T) CaseC03 {
	cfg := gkit.GenCfg{MaxNodes: 7, Depth: 1, Cycles: true, NoFailMix: true, SubModes: []string{"pregel", "dag", "workflow", "chain"}}
	if rapid.IntRange(0, 2).Draw(t, "withState") == 0 {
		// stateful graphs: handlers and ProcessState calls of concurrently finishing nodes share one lock
		cfg.State, cfg.PS = true, true
	}
	var c CaseC03
	if w := rapid.IntRange(0, 6).Draw(t, "wide"); w == 0 {
		c.Spec = gkit.GenWide(t, cfg)
	} else if w == 1 {
		// directed: one join reached by plain edges and through branches of producers that finish in a generated order
		c.Spec = gkit.GenJoinMix(t, cfg)
	} else if w == 2 {
		// directed: 2-5 producers of one step that all work on the graph's state (ProcessState, post-handlers); one
		// of them may fail inside its state handler - the others still get at the state, in whatever order they finish
		c.Spec = gkit.GenStateFan(t, true)
	} else {
		mode := []string{"pregel", "dag", "workflow", "workflow", "chain"}[rapid.IntRange(0, 4).Draw(t, "mode")]
		c.Spec = gkit.GenTop(t, mode, cfg)
	}
	c.Input = gkit.GenInput(t, c.Spec.In)
	c.Paradigm = []string{"invoke", "invoke", "stream"}[rapid.IntRange(0, 2).Draw(t, "paradigm")]
	allLambdas(c.Spec, "", false, func(n *gkit.NodeSpec, tag string, nm bool) { n.Gate = true })
	if gkit.FaultNode(c.Spec) == nil && rapid.IntRange(0, 3).Draw(t, "withFault") == 0 {
		var ls []*gkit.NodeSpec
		allLambdas(c.Spec, "", false, func(n *gkit.NodeSpec, tag string, nm bool) { ls = append(ls, n) })
		if len(ls) > 0 {
			fn := ls[rapid.IntRange(0, len(ls)-1).Draw(t, "faultNode")]
			fn.Fault = []string{"err", "panic"}[rapid.IntRange(0, 1).Draw(t, "faultKind")]
			if fn.PS && rapid.Bool().Draw(t, "faultInStateHandler") {
				fn.Fault = "pspanic"
			} else if fn.PreH != "" && rapid.Bool().Draw(t, "faultInPreHandler") {
				fn.Fault = "preherr"
			}
		}
	}
	for i := 0; i < 10; i++ {
		c.Release = append(c.Release, rapid.IntRange(0, 7).Draw(t, "rel"))
	}
	c.Delays = map[string]int{}
	for _, p := range c03Points {
		c.Delays[p] = rapid.IntRange(0, 3).Draw(t, "delay")
	}
	return c
}

var c03Rec *vkit.Recorder
var c03Progress int64

// hookTrace follows every task from submit to receive.  Tasks are identified by address, which the
// allocator may reuse once a task has been received, so the state is "live" per (manager, address).
type hookTrace struct {
	mu        sync.Mutex
	live      map[uintptr]map[uintptr]bool // tm -> task -> submitted and not yet received
	submitted int
	received  int
	bad       string
	maxOv     int
}

func checkC03(c CaseC03) (*vkit.Failure, vkit.Meta) {
	var m vkit.Meta
	if c.Spec == nil {
		return nil, m
	}
	f := vkit.Watchdog(c03Rec, c, 30*time.Second, func() int64 { return atomic.LoadInt64(&c03Progress) }, func() *vkit.Failure {
		return vkit.Guard("panic-escaped", func() *vkit.Failure {
			ctx := context.Background()
			in := fixInput(c.Spec, c.Input)
			ref := gkit.Ref(c.Spec, "", in, gkit.RefOpts{})
			m.Labels = append(m.Labels, "mode:"+c.Spec.Mode, "ref:"+refClass(ref))
			if ref.Ambiguous || (baseClass(ref.Fail) == "merge" && c.Paradigm == "stream") {
				m.Labels = append(m.Labels, "ambiguous-skipped")
				return nil
			}
			r, err := gkit.Compile(ctx, c.Spec, nil)
			if err != nil {
				return vkit.Failf("compile-rejected-wellformed-graph", "Compile failed: %v", err)
			}
			type result struct {
				out        any
				err        error
				execs      []gkit.Exec
				overlapped int
				unfinished []string
				tr         *hookTrace
			}
			runOnce := func(release []int, delays map[string]int) result {
				tr := &hookTrace{live: map[uintptr]map[uintptr]bool{}}
				env := gkit.NewEnv("c03")
				compose.SetVerifHook(func(hctx context.Context, point, node string, tm, task uintptr, ov int) {
					atomic.AddInt64(&c03Progress, 1)
					if hctx != nil && gkit.EnvOf(hctx) != env {
						// a straggler of an earlier run or case (a node that does not lead to END may outlive its run)
						for i := 0; i < delays[point]; i++ {
							runtime.Gosched()
						}
						return
					}
					tr.mu.Lock()
					if ov > tr.maxOv {
						tr.maxOv = ov
					}
					switch point {
					case "submit.async", "submit.sync":
						if tr.live[tm] == nil {
							tr.live[tm] = map[uintptr]bool{}
						}
						if tr.live[tm][task] && tr.bad == "" {
							tr.bad = "task of node " + node + " submitted again before it was received"
						}
						tr.live[tm][task] = true
						tr.submitted++
					case "wait.received":
						if !tr.live[tm][task] && tr.bad == "" {
							tr.bad = "task of node " + node + " received although it is not outstanding (received twice, or never submitted)"
						}
						delete(tr.live[tm], task)
						tr.received++
					}
					tr.mu.Unlock()
					for i := 0; i < delays[point]; i++ {
						runtime.Gosched()
					}
				})
				defer compose.SetVerifHook(nil)
				env.MaxRunsPerNode = 400
				env.Hook = func(context.Context, *gkit.NodeSpec, string, string) { atomic.AddInt64(&c03Progress, 1) }
				out, rerr, ov := runGated(ctx, r, env, CaseGraph{Spec: c.Spec, Input: in, Paradigm: c.Paradigm}, release)
				res := result{out: out, err: rerr, overlapped: ov, tr: tr}
				// bodies that had started but not returned when the run returned
				open := map[string]int{}
				for _, e := range env.EventsCopy() {
					switch e.Phase {
					case "start":
						open[e.Node]++
					case "end", "abort":
						open[e.Node]--
					}
				}
				for k, v := range open {
					if v > 0 {
						res.unfinished = append(res.unfinished, k)
					}
				}
				res.execs = env.Execs()
				return res
			}
			a := runOnce([]int{0}, nil)
			b := runOnce(c.Release, c.Delays)
			want := baseClass(ref.Fail)
			optional := map[string]bool{}
			for _, o := range ref.OptionalNodes {
				optional[o] = true
			}
			for i, rs := range []result{a, b} {
				name := []string{"arrival-order run", "permuted run"}[i]
				if got := classifyErr(rs.err); got != want {
					return &vkit.Failure{Kind: "outcome-depends-on-completion-order", Sig: "outcome-class", Msg: fmt.Sprintf("%s ended with %q, reference model says %q (err=%s)", name, got, want, shortErr(rs.err))}
				}
				if want != "" {
					// a failing run of a graph executed in steps (no workflow level anywhere, every node leads to END) still
					// collects what it started: no body is running when the call returns
					var running []string
					for _, u := range rs.unfinished {
						failing := false
						for _, ft := range ref.FaultTags {
							if ft == u {
								failing = true // a body that fails records no end
							}
						}
						if !failing {
							running = append(running, u)
						}
					}
					if batchOnly(c.Spec) && len(ref.OptionalNodes) == 0 && len(running) > 0 {
						rs.unfinished = running
						return &vkit.Failure{Kind: "returned-before-node-finished", Sig: "failed-run-returned-before-started-nodes-finished", Msg: fmt.Sprintf("%s failed (%s) and returned while the bodies of %v, started in the same step, had not returned", name, shortErr(rs.err), rs.unfinished)}
					}
					continue
				}
				if gkit.Canon(rs.out) != gkit.Canon(ref.Out) {
					return &vkit.Failure{Kind: "output-depends-on-completion-order", Sig: "output-mismatch", Msg: fmt.Sprintf("%s returned %q, reference model says %q", name, vkit.Short(gkit.Canon(rs.out), 200), vkit.Short(gkit.Canon(ref.Out), 200))}
				}
				if d := gkit.DiffExecs(rs.execs, ref.Execs, ref.Optional...); d != "" {
					return &vkit.Failure{Kind: "executions-depend-on-completion-order", Sig: "executions-mismatch", Msg: name + ": " + d}
				}
				for _, u := range rs.unfinished {
					isOpt := false
					for o := range optional {
						if u == o || (len(u) > len(o) && u[:len(o)+1] == o+"/") {
							isOpt = true
						}
					}
					if !isOpt {
						return &vkit.Failure{Kind: "returned-before-node-finished", Sig: "returned-before-node-finished", Msg: fmt.Sprintf("%s returned while the body of %s, which feeds END, had not returned", name, u)}
					}
				}
				rs.tr.mu.Lock()
				bad, nlive, sub, rec := rs.tr.bad, 0, rs.tr.submitted, rs.tr.received
				for _, l := range rs.tr.live {
					nlive += len(l)
				}
				rs.tr.mu.Unlock()
				if len(ref.OptionalNodes) > 0 {
					// nodes that do not lead to END may outlive the run (and the next run's hook): traces are not judged
					continue
				}
				if bad != "" {
					return &vkit.Failure{Kind: "task-not-collected-once", Sig: "task-not-collected-once", Msg: name + ": " + bad}
				}
				if nlive > 0 {
					return &vkit.Failure{Kind: "task-not-collected-once", Sig: "task-not-collected", Msg: fmt.Sprintf("%s: %d tasks were submitted, %d received; %d never collected although every node of this graph leads to END", name, sub, rec, nlive)}
				}
			}
			if b.overlapped >= 2 {
				m.Labels = append(m.Labels, "bodies-overlapped")
			}
			b.tr.mu.Lock()
			maxOv := b.tr.maxOv
			b.tr.mu.Unlock()
			if maxOv >= 2 {
				m.Labels = append(m.Labels, "overflow-list>=2")
			}
			m.NonTrivial = b.overlapped >= 2
			return nil
		})
	})
	return f, m
}

func TestC03(t *testing.T) {
	c03Rec = vkit.NewRecorder("C03")
	vkit.Prop(t, c03Rec, genC03, checkC03)
}

func TestC03Replay(t *testing.T) {
	c03Rec = vkit.NewRecorder("C03")
	vkit.Replay(t, "C03", checkC03)
}

// batchOnly: the spec and every nested spec run in steps (pregel / dag / chain), none eagerly (workflow).
func batchOnly(sp *gkit.Spec) bool {
	if sp.Mode == "workflow" {
		return false
	}
	ok := true
	each := func(n *gkit.NodeSpec) {
		if n.Sub != nil && !batchOnly(n.Sub) {
			ok = false
		}
	}
	for i := range sp.Nodes {
		each(&sp.Nodes[i])
	}
	for si := range sp.Stages {
		for i := range sp.Stages[si].Nodes {
			each(&sp.Stages[si].Nodes[i])
		}
	}
	return ok
}
