package compose_test

// C19: a finished streaming run leaves no blocked producer or goroutine behind.
// Generated: graphs of every kind without faults, whose node output streams (and the caller's
// input stream in the Transform paradigm) come from real producer goroutines writing into Pipes
// of generated capacity; lazy transformers; stream branches that read one chunk and close;
// per-call callback handlers that get stream copies and close them at once / after one chunk /
// after reading everything (inline or in an own goroutine); the caller reads a generated prefix
// of the output and closes, or reads to EOF.
// Domain (from the statement): the reference model says the run reaches END normally and no
// produced value is left without a consumer (RefResult.Leftover); other cases are run but only
// labelled.
// Oracle: after the caller's close, poll until every producer finished or saw `closed` and every
// goroutine created during the case is gone.  If that does not happen, a fixed point is looked
// for: three consecutive goroutine dumps in which the goroutines created by the case are the same
// and every one of them is blocked (channel / select / sync wait; no timers exist in this code).
// A fixed point with survivors is a violation (stacks in the failure); no fixed point within
// the budget is inconclusive (counted, never a violation).

import (
	"context"
	"encoding/json"
	"fmt"
	"regexp"
	"runtime"
	"sort"
	"strconv"
	"strings"
	"testing"
	"time"

	"github.com/cloudwego/eino/callbacks"
	"github.com/cloudwego/eino/compose"
	"github.com/cloudwego/eino/internal/gkit"
	"github.com/cloudwego/eino/internal/vkit"
	rapid "github.com/cloudwego/eino/internal/vrapid"
	"github.com/cloudwego/eino/schema"
)

type CaseC19 struct {
	Spec      *gkit.Spec `json:"spec"`
	Input     any        `json:"input"`
	Fan       bool       `json:"fan"`       // built by the directed generator
	Transform bool       `json:"transform"` // Transform paradigm (input stream from a producer) instead of Stream
	InChunks  int        `json:"inchunks"`
	Cap       int        `json:"cap"`
	Lazy      bool       `json:"lazy"`
	ReadN     int        `json:"readn"`    // chunks the caller reads before closing; -1 = to EOF
	Handlers  []int      `json:"handlers"` // per handler: 1 close at once, 2 one chunk then close, 3 read all inline, 4 read all in a goroutine
}

func forcePrefix(t *rapid.T, sp *gkit.Spec) {
	for i := range sp.Branches {
		b := &sp.Branches[i]
		if b.Stream && rapid.IntRange(0, 2).Draw(t, "prefixBranch") == 0 {
			if b.Multi {
				for _, tg := range b.Targets {
					if rapid.Bool().Draw(t, "pick") {
						b.Force = append(b.Force, tg)
					}
				}
				if len(b.Force) == 0 {
					b.Force = []string{b.Targets[0]}
				}
			} else {
				b.Force = []string{b.Targets[rapid.IntRange(0, len(b.Targets)-1).Draw(t, "forced")]}
			}
			b.Prefix = true
		}
	}
	for i := range sp.Nodes {
		if sp.Nodes[i].Sub != nil {
			forcePrefix(t, sp.Nodes[i].Sub)
		}
	}
	for i := range sp.Stages {
		for j := range sp.Stages[i].Nodes {
			if sp.Stages[i].Nodes[j].Sub != nil {
				forcePrefix(t, sp.Stages[i].Nodes[j].Sub)
			}
		}
	}
}

// genFan builds shapes in which an early close has to travel back to real producers: 1-3
// producers with many chunks whose streams reach END directly, through a pass-through node, through a
// stream branch that reads one chunk, or out of a nested graph; fan-in at END; in workflows
// additionally control-only dependencies (their copy of the stream must be closed by the framework).
func genFan(t *rapid.T) *gkit.Spec {
	mode := []string{"dag", "dag", "pregel", "workflow", "workflow"}[rapid.IntRange(0, 4).Draw(t, "fanMode")]
	sp := &gkit.Spec{Mode: mode, In: "S", Out: "M"}
	wf := mode == "workflow"
	paras := []string{"IS", "IT", "ISCT", "S", "T", "I"}
	lambda := func(key string) gkit.NodeSpec {
		return gkit.NodeSpec{Key: key, Kind: "lambda", In: "S", Para: paras[rapid.IntRange(0, len(paras)-1).Draw(t, "para")],
			Chunks: rapid.IntRange(1, 14).Draw(t, "chunks")}
	}
	m := rapid.IntRange(1, 3).Draw(t, "producers")
	for i := 0; i < m; i++ {
		key := fmt.Sprintf("p%d", i)
		route := rapid.IntRange(0, 3).Draw(t, "route")
		var n gkit.NodeSpec
		if route == 3 {
			sub := &gkit.Spec{Mode: []string{"dag", "pregel"}[rapid.IntRange(0, 1).Draw(t, "subMode")], In: "S", Out: "S",
				Nodes: []gkit.NodeSpec{lambda("q")}, Edges: []gkit.Edge{{From: "start", To: "q"}, {From: "q", To: "end"}}}
			n = gkit.NodeSpec{Key: key, Kind: "graph", In: "S", Sub: sub}
		} else {
			n = lambda(key)
		}
		if !wf {
			n.OutputKey = key
		}
		if route != 3 && i == 0 && m >= 2 && rapid.IntRange(0, 3).Draw(t, "errItem") == 0 {
			// this producer's stream carries an error item after some chunks (the others keep producing)
			n.Fault = "streamerr"
			n.Para = []string{"IS", "S", "IT", "T"}[rapid.IntRange(0, 3).Draw(t, "errPara")]
			if n.Chunks < 2 {
				n.Chunks = 2
			}
		}
		sp.Nodes = append(sp.Nodes, n)
		sp.Edges = append(sp.Edges, gkit.Edge{From: "start", To: key})
		toEnd := gkit.Edge{From: key, To: "end"}
		if wf {
			toEnd.ToKey = key
		}
		switch {
		case route == 1 && !wf:
			r := "r" + key
			sp.Nodes = append(sp.Nodes, gkit.NodeSpec{Key: r, Kind: "pass", In: "M"})
			sp.Edges = append(sp.Edges, gkit.Edge{From: key, To: r}, gkit.Edge{From: r, To: "end"})
		case route == 2 && !wf:
			x := "x" + key
			sp.Nodes = append(sp.Nodes, gkit.NodeSpec{Key: x, Kind: "pass", In: "M"})
			sp.Edges = append(sp.Edges, gkit.Edge{From: x, To: "end"})
			b := gkit.Branch{From: key, Targets: []string{"end", x}, Stream: true, Prefix: true, Multi: rapid.Bool().Draw(t, "multi")}
			b.Force = []string{b.Targets[rapid.IntRange(0, 1).Draw(t, "forced")]}
			sp.Branches = append(sp.Branches, b)
		case route == 2 && wf:
			// workflow branches carry no data: the copy handed to the chosen target must be closed by the framework
			x := "x" + key
			sp.Nodes = append(sp.Nodes, lambda(x))
			toEnd.NoControl = true
			sp.Edges = append(sp.Edges, toEnd, gkit.Edge{From: x, To: "end", ToKey: x})
			if rapid.Bool().Draw(t, "targetHasData") {
				sp.Edges = append(sp.Edges, gkit.Edge{From: "start", To: x, NoControl: true})
			} // else: the branch target has no data input at all (runs on the zero value)
			b := gkit.Branch{From: key, Targets: []string{"end", x}, Stream: true, Prefix: true, Multi: rapid.Bool().Draw(t, "multi")}
			if b.Multi && rapid.Bool().Draw(t, "both") {
				b.Force = []string{"end", x}
			} else {
				b.Force = []string{x}
			}
			sp.Branches = append(sp.Branches, b)
		default:
			sp.Edges = append(sp.Edges, toEnd)
		}
		if wf && rapid.Bool().Draw(t, "dependent") {
			z := "z" + key
			zn := lambda(z)
			sp.Nodes = append(sp.Nodes, zn)
			sp.Edges = append(sp.Edges, gkit.Edge{From: key, To: z, NoData: true}, gkit.Edge{From: "start", To: z, NoControl: true},
				gkit.Edge{From: z, To: "end", ToKey: z})
		}
	}
	return sp
}

func genC19(t *rapid.T) CaseC19 {
	cfg := gkit.GenCfg{MaxNodes: 6, Depth: 1, Cycles: true, NoFailMix: true, Paradigms: true, StreamBr: true,
		SubModes: []string{"pregel", "dag", "workflow", "chain"}}
	var c CaseC19
	// the property's domain is decided by the reference model; redraw a few times to land in it
	for try := 0; try < 6; try++ {
		if rapid.IntRange(0, 3).Draw(t, "directed") == 0 {
			c = CaseC19{Spec: genFan(t), Fan: true}
		} else {
			mode := []string{"pregel", "dag", "dag", "workflow", "workflow", "chain"}[rapid.IntRange(0, 5).Draw(t, "mode")]
			c = CaseC19{Spec: gkit.GenTop(t, mode, cfg)}
			forcePrefix(t, c.Spec)
		}
		c.Input = gkit.GenInput(t, c.Spec.In)
		clean, _ := stripStreamErr(c.Spec)
		ref := gkit.Ref(clean, "", fixInput(c.Spec, c.Input), gkit.RefOpts{})
		if ref.Fail == "" && !ref.Ambiguous && !ref.Leftover {
			break
		}
	}
	c.Transform = rapid.Bool().Draw(t, "transform")
	c.InChunks = rapid.IntRange(1, 3).Draw(t, "inChunks")
	c.Cap = rapid.IntRange(0, 2).Draw(t, "cap")
	c.Lazy = rapid.Bool().Draw(t, "lazy")
	c.ReadN = rapid.IntRange(-1, 2).Draw(t, "readN")
	for i := rapid.IntRange(0, 3).Draw(t, "nHandlers"); i > 0; i-- {
		c.Handlers = append(c.Handlers, rapid.IntRange(1, 4).Draw(t, "handler"))
	}
	return c
}

// ---- goroutine dumps ----------------------------------------------------------------

type gor struct {
	id    int
	state string
	stack string
}

var gorHeader = regexp.MustCompile(`^goroutine (\d+) \[([^\]]*)\]:`)

func dumpGoroutines() map[int]gor {
	buf := make([]byte, 1<<20)
	for {
		n := runtime.Stack(buf, true)
		if n < len(buf) {
			buf = buf[:n]
			break
		}
		buf = make([]byte, 2*len(buf))
	}
	out := map[int]gor{}
	for _, blk := range strings.Split(string(buf), "\n\n") {
		m := gorHeader.FindStringSubmatch(blk)
		if m == nil {
			continue
		}
		id, _ := strconv.Atoi(m[1])
		st := m[2]
		if i := strings.Index(st, ","); i >= 0 {
			st = st[:i]
		}
		out[id] = gor{id: id, state: st, stack: blk}
	}
	return out
}

func blockedState(s string) bool {
	switch s {
	case "chan receive", "chan send", "select", "semacquire", "sync.Cond.Wait", "sync.Mutex.Lock", "sync.RWMutex.Lock", "sync.RWMutex.RLock", "sync.WaitGroup.Wait",
		"chan receive (nil chan)", "chan send (nil chan)", "select (no cases)":
		return true
	}
	return false
}

// newGoroutines: goroutines that did not exist at the baseline (the caller itself always existed).
func newGoroutines(base map[int]gor) []gor {
	var out []gor
	for id, g := range dumpGoroutines() {
		if _, old := base[id]; !old {
			out = append(out, g)
		}
	}
	sort.Slice(out, func(i, j int) bool { return out[i].id < out[j].id })
	return out
}

// topFrame: the first function of the stack outside runtime / sync (where the goroutine waits).
func topFrame(stack string) string {
	lines := strings.Split(stack, "\n")
	for i := 1; i < len(lines); i += 2 {
		f := strings.TrimSpace(lines[i])
		if strings.HasPrefix(f, "runtime.") || strings.HasPrefix(f, "sync.") || strings.HasPrefix(f, "internal/") {
			continue
		}
		if j := strings.LastIndex(f, "("); j > 0 {
			f = f[:j]
		}
		f = strings.ReplaceAll(f, "github.com/cloudwego/eino/", "")
		f = regexp.MustCompile(`\[[^\]]*\]`).ReplaceAllString(f, "")
		return f
	}
	return "?"
}

// settle waits until prod is settled and no new goroutine is left; it returns the survivors of a
// fixed point (violation), or inconclusive=true when the budget ran out without a fixed point.
func settle(base map[int]gor, prod *gkit.Producers) (survivors []gor, inconclusive bool) {
	deadline := time.Now().Add(20 * time.Second)
	quiet := time.Now().Add(300 * time.Millisecond)
	sleep := 50 * time.Microsecond
	for {
		if prod.Settled() {
			if gs := newGoroutines(base); len(gs) == 0 {
				return nil, false
			}
		}
		if time.Now().After(quiet) {
			// look for a fixed point: 3 dumps, same ids, all blocked
			var prev []gor
			fixed := true
			for k := 0; k < 3; k++ {
				gs := newGoroutines(base)
				if len(gs) == 0 && prod.Settled() {
					return nil, false
				}
				for _, g := range gs {
					if !blockedState(g.state) {
						fixed = false
					}
				}
				if prev != nil {
					if len(prev) != len(gs) {
						fixed = false
					} else {
						for i := range gs {
							if gs[i].id != prev[i].id || gs[i].state != prev[i].state {
								fixed = false
							}
						}
					}
				}
				prev = gs
				if !fixed {
					break
				}
				time.Sleep(60 * time.Millisecond)
			}
			if fixed && len(prev) > 0 {
				return prev, false
			}
			if fixed && len(prev) == 0 && !prod.Settled() {
				// no goroutine left but a producer neither finished nor saw closed: cannot happen
				// (its goroutine would be alive); treat as inconclusive
				return nil, true
			}
			quiet = time.Now().Add(200 * time.Millisecond)
		}
		if time.Now().After(deadline) {
			return nil, true
		}
		time.Sleep(sleep)
		if sleep < 5*time.Millisecond {
			sleep *= 2
		}
	}
}

type h19 struct{ mode int }

func consume19[T any](mode int, sr *schema.StreamReader[T]) {
	switch mode {
	case 1:
		sr.Close()
	case 2:
		sr.Recv()
		sr.Close()
	case 3:
		for {
			if _, err := sr.Recv(); err != nil {
				break
			}
		}
		sr.Close()
	case 4:
		go func() {
			defer sr.Close()
			for {
				if _, err := sr.Recv(); err != nil {
					return
				}
			}
		}()
	}
}

func (h h19) handler() callbacks.Handler {
	return callbacks.NewHandlerBuilder().
		OnStartWithStreamInputFn(func(ctx context.Context, info *callbacks.RunInfo, in *schema.StreamReader[callbacks.CallbackInput]) context.Context {
			consume19(h.mode, in)
			return ctx
		}).
		OnEndWithStreamOutputFn(func(ctx context.Context, info *callbacks.RunInfo, out *schema.StreamReader[callbacks.CallbackOutput]) context.Context {
			consume19(h.mode, out)
			return ctx
		}).Build()
}

var c19Rec *vkit.Recorder

func checkC19(c CaseC19) (*vkit.Failure, vkit.Meta) {
	var m vkit.Meta
	if c.Spec == nil {
		return nil, m
	}
	f := vkit.Guard("panic-escaped", func() *vkit.Failure {
		ctx, cancel := context.WithCancel(context.Background())
		defer cancel()
		in := fixInput(c.Spec, c.Input)
		// an error item in a stream is data for this property: the domain is decided on the graph without it
		clean, errItem := stripStreamErr(c.Spec)
		ref := gkit.Ref(clean, "", in, gkit.RefOpts{})
		inScope := ref.Fail == "" && !ref.Ambiguous && !ref.Leftover
		r, err := gkit.Compile(ctx, c.Spec, nil)
		if err != nil {
			return vkit.Failf("compile-rejected-wellformed-graph", "Compile failed: %v", err)
		}
		base := dumpGoroutines()
		env := gkit.NewEnv("c19")
		env.MaxRunsPerNode = 400
		env.Prod = &gkit.Producers{Cap: c.Cap, Lazy: c.Lazy}
		cctx := env.With(ctx)
		var opts []compose.Option
		earlyHandler := false
		for _, hm := range c.Handlers {
			opts = append(opts, compose.WithCallbacks(h19{mode: hm}.handler()))
			if hm == 1 || hm == 2 {
				earlyHandler = true
			}
		}
		var sr *schema.StreamReader[any]
		if c.Transform {
			sr, err = r.Transform(cctx, gkit.ChunkInput(in, c.InChunks), opts...)
		} else {
			sr, err = r.Stream(cctx, in, opts...)
		}
		read, eof := 0, false
		var rerr error
		if err == nil {
			for c.ReadN < 0 || read < c.ReadN {
				_, e := sr.Recv()
				if e != nil {
					eof = true
					if e.Error() != "EOF" {
						rerr = e
					}
					break
				}
				read++
			}
			sr.Close()
		}
		m.Labels = append(m.Labels, "mode:"+c.Spec.Mode)
		if c.Fan {
			m.Labels = append(m.Labels, "directed-fan")
		}
		if !inScope {
			m.Labels = append(m.Labels, "out-of-scope")
			switch {
			case ref.Fail != "":
				m.Labels = append(m.Labels, "oos:fail:"+baseClass(ref.Fail))
			case ref.Ambiguous:
				m.Labels = append(m.Labels, "oos:ambiguous")
			default:
				m.Labels = append(m.Labels, "oos:leftover")
			}
			// let whatever the run left behind finish or come to rest, so that it belongs to the
			// baseline of later cases (nodes still running could start goroutines later)
			settle(base, env.Prod)
			return nil
		}
		if errItem && err == nil && rerr != nil {
			// the caller met the error item and closed the stream: everything must be released as after any early close
			m.Labels = append(m.Labels, "caller-stopped-at-error-item")
			rerr = nil
		}
		// (A run that FAILS - e.g. a non-streaming consumer inside the graph meets the error item - is outside the
		// statement, which speaks of runs that complete and whose output stream is read or closed; the framework
		// does leave producers blocked then, e.g. behind a stream parked in END's channel: see DESIGN.md 9.2.)
		if err != nil || rerr != nil {
			// the run itself failed although the model says it succeeds: C01/C02's business
			m.Labels = append(m.Labels, "run-failed")
			settle(base, env.Prod)
			return nil
		}
		survivors, inconclusive := settle(base, env.Prod)
		if inconclusive {
			m.Labels = append(m.Labels, "unsettled")
			if c19Rec != nil {
				c19Rec.Note("some cases did not reach a goroutine fixed point within the budget (inconclusive, not asserted)")
			}
			return nil
		}
		if len(survivors) > 0 {
			var sb strings.Builder
			frames := map[string]bool{}
			for _, g := range survivors {
				frames[g.state+" in "+topFrame(g.stack)] = true
				sb.WriteString(g.stack)
				sb.WriteString("\n\n")
			}
			var fl []string
			for k := range frames {
				fl = append(fl, k)
			}
			sort.Strings(fl)
			prods, _ := json.Marshal(env.Prod.Snapshot())
			return &vkit.Failure{Kind: "goroutine-left-blocked", Sig: "goroutine-left-blocked:" + strings.Join(fl, ";"),
				Msg:    fmt.Sprintf("after the output stream was closed (caller read %d chunks, eof=%v) %d goroutine(s) created by the run stay blocked: %s; producers: %s", read, eof, len(survivors), strings.Join(fl, "; "), prods),
				Detail: sb.String()}
		}
		nProd := len(env.Prod.Snapshot())
		early := !eof
		m.NonTrivial = nProd >= 2 && (early || earlyHandler || hasPrefixBranch(c.Spec)) && (ref.FanInSameStep || len(c.Spec.Branches) > 0 || ref.GraphNodeRan || len(c.Spec.Edges) > len(c.Spec.Nodes))
		if early {
			m.Labels = append(m.Labels, "caller-closed-early")
		}
		if hasPrefixBranch(c.Spec) {
			m.Labels = append(m.Labels, "prefix-branch")
		}
		return nil
	})
	return f, m
}

// stripStreamErr returns a copy of the spec without streamerr faults and whether there was one.
func stripStreamErr(sp *gkit.Spec) (*gkit.Spec, bool) {
	b, _ := json.Marshal(sp)
	var cp gkit.Spec
	_ = json.Unmarshal(b, &cp)
	found := false
	var walk func(s *gkit.Spec)
	walk = func(s *gkit.Spec) {
		for i := range s.Nodes {
			if s.Nodes[i].Fault == "streamerr" {
				s.Nodes[i].Fault = ""
				found = true
			}
			if s.Nodes[i].Sub != nil {
				walk(s.Nodes[i].Sub)
			}
		}
	}
	walk(&cp)
	return &cp, found
}

func hasPrefixBranch(sp *gkit.Spec) bool {
	for i := range sp.Branches {
		if sp.Branches[i].Prefix {
			return true
		}
	}
	for i := range sp.Nodes {
		if sp.Nodes[i].Sub != nil && hasPrefixBranch(sp.Nodes[i].Sub) {
			return true
		}
	}
	return false
}

func TestC19(t *testing.T) {
	c19Rec = vkit.NewRecorder("C19")
	vkit.Prop(t, c19Rec, genC19, checkC19)
}

func TestC19Replay(t *testing.T) {
	vkit.Replay(t, "C19", checkC19)
}
