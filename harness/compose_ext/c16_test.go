package compose_test

// C16: call options reach exactly the nodes they address.
// Generated: nested graphs (depth <= 3, Graph and Workflow levels) whose nodes are lambdas with
// option type OptA, lambdas with option type OptB, lambdas without options and a document
// transformer component; calls carrying several options: undesignated component options of each
// type, options designated to a node or to a node path (valid, unknown node, path below a
// non-graph node, wrong option type), designated callbacks; two consecutive and two concurrent
// calls with different values.
// Oracle: a reference router written from the statement says for every node which option values
// it must receive (in order) and whether the call must fail; every instrumented node records
// what it received, tagged with the call id: equality with the reference, and no value of
// another call ever appears.

import (
	"context"
	"fmt"
	"sort"
	"strings"
	"sync"
	"testing"

	"github.com/cloudwego/eino/callbacks"
	"github.com/cloudwego/eino/components/document"
	"github.com/cloudwego/eino/compose"
	"github.com/cloudwego/eino/internal/gkit"
	"github.com/cloudwego/eino/internal/vkit"
	rapid "github.com/cloudwego/eino/internal/vrapid"
	"github.com/cloudwego/eino/schema"
)

type OptA struct{ V string }
type OptB struct{ V string }
type trOpts struct{ vs []string }

type docs = []*schema.Document

type Node16 struct {
	Key  string   `json:"key"`
	Kind string   `json:"kind"` // A | B | N | T | G (graph) | W (workflow)
	Sub  []Node16 `json:"sub,omitempty"`
	// Keyed (nodes of plain graphs only): the node is added with WithOutputKey and followed by a lambda that
	// unwraps the map again (call paradigm Stream exercises the stream form of the keyed wrapper)
	Keyed bool `json:"keyed,omitempty"`
}

type Opt16 struct {
	Kind  string   `json:"kind"`            // A | B | T | cb
	Vals  []string `json:"vals,omitempty"`  // values (the call id is prepended at call time)
	Path  []string `json:"path,omitempty"`  // designated node path (nil = undesignated)
	Path2 []string `json:"path2,omitempty"` // optional second designated path of the same option
	// Option values are immutable: further options may be derived from one base value.
	Extra    [][]string `json:"extra,omitempty"`    // paths added to the base one Designate call at a time
	Sibs     [][]string `json:"sibs,omitempty"`     // one derived option per entry: base.DesignateNodeWithPath(entry); all are created before any is used
	DropBase bool       `json:"dropbase,omitempty"` // the base itself is not passed to the call
}

// effective lists the options a generated entry stands for: (paths) per option passed to the call.
func (o Opt16) effective() [][][]string {
	var base [][]string
	for _, p := range [][]string{o.Path, o.Path2} {
		if p != nil {
			base = append(base, p)
		}
	}
	base = append(base, o.Extra...)
	var out [][][]string
	if !o.DropBase || len(o.Sibs) == 0 {
		out = append(out, base)
	}
	for _, sb := range o.Sibs {
		out = append(out, append(append([][]string(nil), base...), sb))
	}
	return out
}

type Call16 struct {
	Opts []Opt16 `json:"opts"`
}

type CaseC16 struct {
	Nodes      []Node16 `json:"nodes"`
	Calls      []Call16 `json:"calls"`
	Concurrent bool     `json:"concurrent"`
	Stream     bool     `json:"stream,omitempty"` // call through Stream instead of Invoke
	// Resume: path of a leaf inside a nested graph.  That graph is compiled with interrupt-before the leaf; every
	// call is then a pair: a first call without options that is interrupted there (checkpoint written), and the
	// resuming call, which carries the options - they must reach what runs in the resumed call.
	Resume []string `json:"resume,omitempty"`
}

type rec16 struct {
	mu    sync.Mutex
	got   map[string][]string // node path -> received option values
	cb    map[string][]string // handler id -> node names it saw starting
	order []string
}

type rec16Key struct{}

func recOf(ctx context.Context) *rec16 {
	r, _ := ctx.Value(rec16Key{}).(*rec16)
	return r
}

func (r *rec16) add(path string, vals ...string) {
	if r == nil {
		return
	}
	r.mu.Lock()
	r.got[path] = append(r.got[path], vals...)
	r.order = append(r.order, path)
	r.mu.Unlock()
}

type transformer16 struct{ path string }

func (t *transformer16) Transform(ctx context.Context, src docs, opts ...document.TransformerOption) (docs, error) {
	o := document.GetTransformerImplSpecificOptions(&trOpts{}, opts...)
	recOf(ctx).add(t.path, o.vs...)
	recOf(ctx).add(t.path) // mark execution
	return src, nil
}

func trOpt(v string) document.TransformerOption {
	return document.WrapTransformerImplSpecificOptFn(func(o *trOpts) { o.vs = append(o.vs, v) })
}

func addNode16(adder interface {
	AddLambdaNode(key string, node *compose.Lambda, opts ...compose.GraphAddNodeOpt) error
	AddDocumentTransformerNode(key string, node document.Transformer, opts ...compose.GraphAddNodeOpt) error
	AddGraphNode(key string, node compose.AnyGraph, opts ...compose.GraphAddNodeOpt) error
}, n Node16, path string, intr string) error {
	p := path + n.Key
	nopts := []compose.GraphAddNodeOpt{compose.WithNodeName(p)}
	if n.Keyed {
		nopts = append(nopts, compose.WithOutputKey("k"))
	}
	switch n.Kind {
	case "A":
		return adder.AddLambdaNode(n.Key, compose.InvokableLambdaWithOption(func(ctx context.Context, in docs, opts ...OptA) (docs, error) {
			vs := make([]string, 0, len(opts))
			for _, o := range opts {
				vs = append(vs, o.V)
			}
			recOf(ctx).add(p, vs...)
			return in, nil
		}), nopts...)
	case "B":
		return adder.AddLambdaNode(n.Key, compose.InvokableLambdaWithOption(func(ctx context.Context, in docs, opts ...OptB) (docs, error) {
			vs := make([]string, 0, len(opts))
			for _, o := range opts {
				vs = append(vs, o.V)
			}
			recOf(ctx).add(p, vs...)
			return in, nil
		}), nopts...)
	case "I":
		// a lambda whose option type is an interface: no option value has that type, so nothing is routed to it
		return adder.AddLambdaNode(n.Key, compose.InvokableLambdaWithOption(func(ctx context.Context, in docs, opts ...any) (docs, error) {
			vs := make([]string, 0, len(opts))
			for _, o := range opts {
				vs = append(vs, fmt.Sprintf("%v", o))
			}
			recOf(ctx).add(p, vs...)
			return in, nil
		}), nopts...)
	case "N":
		return adder.AddLambdaNode(n.Key, compose.InvokableLambda(func(ctx context.Context, in docs) (docs, error) {
			recOf(ctx).add(p)
			return in, nil
		}), nopts...)
	case "T":
		return adder.AddDocumentTransformerNode(n.Key, &transformer16{path: p}, nopts...)
	case "G", "W":
		sub, err := build16(n.Sub, p+"/", n.Kind, intr)
		if err != nil {
			return err
		}
		if strings.HasPrefix(intr, p+"/") && !strings.Contains(intr[len(p)+1:], "/") {
			nopts = append(nopts, compose.WithGraphCompileOptions(compose.WithInterruptBeforeNodes([]string{intr[len(p)+1:]})))
		}
		return adder.AddGraphNode(n.Key, sub, nopts...)
	}
	return fmt.Errorf("bad kind %s", n.Kind)
}

type wfAdapter struct {
	wf    *compose.Workflow[docs, docs]
	nodes map[string]*compose.WorkflowNode
}

func (w *wfAdapter) AddLambdaNode(key string, node *compose.Lambda, opts ...compose.GraphAddNodeOpt) error {
	w.nodes[key] = w.wf.AddLambdaNode(key, node, opts...)
	return nil
}
func (w *wfAdapter) AddDocumentTransformerNode(key string, node document.Transformer, opts ...compose.GraphAddNodeOpt) error {
	w.nodes[key] = w.wf.AddDocumentTransformerNode(key, node, opts...)
	return nil
}
func (w *wfAdapter) AddGraphNode(key string, node compose.AnyGraph, opts ...compose.GraphAddNodeOpt) error {
	w.nodes[key] = w.wf.AddGraphNode(key, node, opts...)
	return nil
}

// build16 builds a linear graph (or workflow) START -> n0 -> ... -> END.
func build16(nodes []Node16, path string, kind string, intr string) (compose.AnyGraph, error) {
	if kind == "W" {
		wf := compose.NewWorkflow[docs, docs]()
		ad := &wfAdapter{wf: wf, nodes: map[string]*compose.WorkflowNode{}}
		prev := compose.START
		for _, n := range nodes {
			if err := addNode16(ad, n, path, intr); err != nil {
				return nil, err
			}
			ad.nodes[n.Key].AddInput(prev)
			prev = n.Key
		}
		wf.End().AddInput(prev)
		return wf, nil
	}
	g := compose.NewGraph[docs, docs]()
	prev := compose.START
	for _, n := range nodes {
		if err := addNode16(g, n, path, intr); err != nil {
			return nil, err
		}
		if err := g.AddEdge(prev, n.Key); err != nil {
			return nil, err
		}
		prev = n.Key
		if n.Keyed {
			u := n.Key + "_u"
			if err := g.AddLambdaNode(u, compose.InvokableLambda(func(ctx context.Context, in map[string]any) (docs, error) {
				d, _ := in["k"].(docs)
				return d, nil
			})); err != nil {
				return nil, err
			}
			if err := g.AddEdge(prev, u); err != nil {
				return nil, err
			}
			prev = u
		}
	}
	if err := g.AddEdge(prev, compose.END); err != nil {
		return nil, err
	}
	return g, nil
}

// ---- reference router ---------------------------------------------------------------------

type flat16 struct {
	path string
	kind string
}

func flatten(nodes []Node16, prefix string, out *[]flat16) {
	for _, n := range nodes {
		*out = append(*out, flat16{prefix + n.Key, n.Kind})
		if n.Kind == "G" || n.Kind == "W" {
			flatten(n.Sub, prefix+n.Key+"/", out)
		}
	}
}

func find(nodes []Node16, path []string) (kind string, errClass string) {
	cur := nodes
	for i, seg := range path {
		var hit *Node16
		for j := range cur {
			if cur[j].Key == seg {
				hit = &cur[j]
			}
		}
		if hit == nil {
			return "", "unknown-node"
		}
		if i == len(path)-1 {
			return hit.Kind, ""
		}
		if hit.Kind != "G" && hit.Kind != "W" {
			return "", "below-non-graph"
		}
		cur = hit.Sub
	}
	return "", "empty-path"
}

// route returns expected values per node path, or an error class.
func route(c CaseC16, call Call16, callID string) (map[string][]string, string) {
	var all []flat16
	flatten(c.Nodes, "", &all)
	exp := map[string][]string{}
	for _, o := range call.Opts {
		if o.Kind == "cb" {
			for _, pth := range [][]string{o.Path, o.Path2} {
				if pth != nil {
					if _, ec := find(c.Nodes, pth); ec != "" {
						return nil, ec
					}
				}
			}
			continue
		}
		vals := make([]string, len(o.Vals))
		for i, v := range o.Vals {
			vals[i] = callID + ":" + v
		}
		for _, pathsOfOpt := range o.effective() {
			if len(pathsOfOpt) == 0 {
				for _, n := range all {
					if n.kind == o.Kind {
						exp[n.path] = append(exp[n.path], vals...)
					}
				}
				continue
			}
			for _, pth := range pathsOfOpt {
				kind, ec := find(c.Nodes, pth)
				if ec != "" {
					return nil, ec
				}
				target := strings.Join(pth, "/")
				if kind == "G" || kind == "W" {
					// designating a graph node addresses the nodes of that type inside it
					for _, n := range all {
						if strings.HasPrefix(n.path, target+"/") && n.kind == o.Kind {
							exp[n.path] = append(exp[n.path], vals...)
						}
					}
					continue
				}
				if kind != o.Kind {
					return nil, "wrong-option-type"
				}
				exp[target] = append(exp[target], vals...)
			}
		}
	}
	return exp, ""
}

// misuseLevels lists, for every wrongly designated path of a call, the graph level ("" = top, else the path of a
// graph node) whose option resolution meets the offending segment.
func misuseLevels(c CaseC16, call Call16) []string {
	var out []string
	level := func(path []string, kindWanted string) (string, bool) {
		cur := c.Nodes
		for i, seg := range path {
			var hit *Node16
			for j := range cur {
				if cur[j].Key == seg {
					hit = &cur[j]
				}
			}
			lv := strings.Join(path[:i], "/")
			if hit == nil {
				return lv, true
			}
			isGraph := hit.Kind == "G" || hit.Kind == "W"
			if i == len(path)-1 {
				if !isGraph && kindWanted != "cb" && hit.Kind != kindWanted {
					return lv, true
				}
				return "", false
			}
			if !isGraph {
				return lv, true
			}
			cur = hit.Sub
		}
		return "", len(path) == 0
	}
	for _, o := range call.Opts {
		var paths [][]string
		for _, p := range [][]string{o.Path, o.Path2} {
			if p != nil {
				paths = append(paths, p)
			}
		}
		paths = append(paths, o.Extra...)
		paths = append(paths, o.Sibs...)
		for _, p := range paths {
			if lv, bad := level(p, o.Kind); bad {
				out = append(out, lv)
			}
		}
	}
	return out
}

type cb16 struct {
	id  string
	rec *rec16
}

func (h *cb16) handler() callbacks.Handler {
	return callbacks.NewHandlerBuilder().OnStartFn(func(ctx context.Context, info *callbacks.RunInfo, input callbacks.CallbackInput) context.Context {
		h.rec.mu.Lock()
		h.rec.cb[h.id] = append(h.rec.cb[h.id], info.Name)
		h.rec.mu.Unlock()
		return ctx
	}).OnStartWithStreamInputFn(func(ctx context.Context, info *callbacks.RunInfo, input *schema.StreamReader[callbacks.CallbackInput]) context.Context {
		// units that natively take a stream (nested graphs in a Stream call) start with this timing
		input.Close()
		h.rec.mu.Lock()
		h.rec.cb[h.id] = append(h.rec.cb[h.id], info.Name)
		h.rec.mu.Unlock()
		return ctx
	}).Build()
}

func buildOpts(call Call16, callID string, rec *rec16) []compose.Option {
	var opts []compose.Option
	for i, o := range call.Opts {
		var opt compose.Option
		switch o.Kind {
		case "A":
			var vs []any
			for _, v := range o.Vals {
				vs = append(vs, OptA{V: callID + ":" + v})
			}
			opt = compose.WithLambdaOption(vs...)
		case "B":
			var vs []any
			for _, v := range o.Vals {
				vs = append(vs, OptB{V: callID + ":" + v})
			}
			opt = compose.WithLambdaOption(vs...)
		case "T":
			var vs []document.TransformerOption
			for _, v := range o.Vals {
				vs = append(vs, trOpt(callID+":"+v))
			}
			opt = compose.WithDocumentTransformerOption(vs...)
		case "cb":
			h := &cb16{id: fmt.Sprintf("%s#%d", callID, i), rec: rec}
			opt = compose.WithCallbacks(h.handler())
		}
		if o.Path != nil {
			if len(o.Path) == 1 && o.Path2 == nil {
				opt = opt.DesignateNode(o.Path[0])
			} else if len(o.Path) == 1 && len(o.Path2) == 1 {
				// several top-level nodes in one DesignateNode call: one path per key
				opt = opt.DesignateNode(o.Path[0], o.Path2[0])
			} else if o.Path2 == nil {
				opt = opt.DesignateNodeWithPath(compose.NewNodePath(o.Path...))
			} else {
				opt = opt.DesignateNodeWithPath(compose.NewNodePath(o.Path...), compose.NewNodePath(o.Path2...))
			}
		}
		for _, e := range o.Extra {
			opt = opt.DesignateNodeWithPath(compose.NewNodePath(e...))
		}
		var derived []compose.Option
		for _, sb := range o.Sibs {
			derived = append(derived, opt.DesignateNodeWithPath(compose.NewNodePath(sb...)))
		}
		if !o.DropBase || len(o.Sibs) == 0 {
			opts = append(opts, opt)
		}
		opts = append(opts, derived...)
	}
	return opts
}

func checkC16(c CaseC16) (*vkit.Failure, vkit.Meta) {
	var m vkit.Meta
	if len(c.Nodes) == 0 || len(c.Calls) == 0 {
		return nil, m
	}
	f := vkit.Guard("panic-escaped", func() *vkit.Failure {
		intr := strings.Join(c.Resume, "/")
		ag, err := build16(c.Nodes, "", "G", intr)
		if err != nil {
			return vkit.Failf("harness-build", "build failed: %v", err)
		}
		g := ag.(*compose.Graph[docs, docs])
		var copts []compose.GraphCompileOption
		if intr != "" {
			copts = append(copts, compose.WithCheckPointStore(gkit.NewByteStore()))
		}
		r, err := g.Compile(context.Background(), copts...)
		if err != nil {
			return vkit.Failf("compile-rejected-wellformed-graph", "Compile failed: %v", err)
		}
		var all []flat16
		flatten(c.Nodes, "", &all)
		depth := 0
		kinds := map[string]bool{}
		for _, n := range all {
			if d := strings.Count(n.path, "/"); d > depth {
				depth = d
			}
			kinds[n.kind] = true
		}
		// inResume: the unit at this path runs (starts) in the resumed call.  asLevel: the path names a graph level
		// ("" = top) that resolves options; the levels enclosing the point of interruption run again on resume.
		idxOf := map[string]int{}
		for i, n := range all {
			idxOf[n.path] = i
		}
		inResume := func(path string, asLevel bool) bool {
			if intr == "" {
				return true
			}
			if asLevel && (path == "" || strings.HasPrefix(intr, path+"/")) {
				return true
			}
			i, ok := idxOf[path]
			return ok && i >= idxOf[intr]
		}
		if intr != "" {
			m.Labels = append(m.Labels, "options-carried-by-a-resuming-call")
		}
		type outcome struct {
			rec *rec16
			err error
		}
		runCall := func(i int) outcome {
			rec := &rec16{got: map[string][]string{}, cb: map[string][]string{}}
			ctx := context.WithValue(context.Background(), rec16Key{}, rec)
			callID := fmt.Sprintf("call%d", i)
			callOpts := buildOpts(c.Calls[i], callID, rec)
			if intr != "" {
				cp := compose.WithCheckPointID(callID)
				pre := &rec16{got: map[string][]string{}, cb: map[string][]string{}}
				_, perr := r.Invoke(context.WithValue(context.Background(), rec16Key{}, pre), docs{{ID: "d"}}, cp)
				if _, ok := compose.ExtractInterruptInfo(perr); !ok {
					return outcome{rec, fmt.Errorf("resume-setup: the first call was not interrupted before %s: %v", intr, perr)}
				}
				callOpts = append(callOpts, cp)
			}
			if c.Stream {
				sr, err := r.Stream(ctx, docs{{ID: "d"}}, callOpts...)
				if err == nil {
					for {
						if _, e := sr.Recv(); e != nil {
							if e.Error() != "EOF" {
								err = e
							}
							break
						}
					}
					sr.Close()
				}
				return outcome{rec, err}
			}
			_, err := r.Invoke(ctx, docs{{ID: "d"}}, callOpts...)
			return outcome{rec, err}
		}
		outs := make([]outcome, len(c.Calls))
		if c.Concurrent {
			var wg sync.WaitGroup
			for i := range c.Calls {
				wg.Add(1)
				go func(i int) {
					defer wg.Done()
					defer func() {
						if p := recover(); p != nil {
							outs[i] = outcome{nil, fmt.Errorf("panic: %v", p)}
						}
					}()
					outs[i] = runCall(i)
				}(i)
			}
			wg.Wait()
		} else {
			for i := range c.Calls {
				outs[i] = runCall(i)
			}
		}
		designatedDeep, undesignated := false, false
		for i, call := range c.Calls {
			callID := fmt.Sprintf("call%d", i)
			for _, o := range call.Opts {
				if len(o.Path) >= 2 {
					designatedDeep = true
				}
				if o.Path == nil && o.Kind != "cb" {
					undesignated = true
				}
				if len(o.Sibs) >= 2 {
					m.Labels = append(m.Labels, "options-derived-from-one-base")
				}
			}
			exp, ec := route(c, call, callID)
			o := outs[i]
			if o.err != nil && strings.HasPrefix(o.err.Error(), "panic:") {
				return vkit.Failf("panic-escaped", "call %d panicked: %v", i, o.err)
			}
			if o.err != nil && strings.HasPrefix(o.err.Error(), "resume-setup:") {
				return vkit.Failf("interrupt-missing", "call %d: %v", i, o.err)
			}
			if ec != "" && intr != "" {
				// a misuse is noticed by the graph level that resolves the offending path segment, when that level runs
				seen := false
				for _, lv := range misuseLevels(c, call) {
					if inResume(lv, true) {
						seen = true
					}
				}
				if !seen {
					m.Labels = append(m.Labels, "misuse-inside-a-graph-finished-before-the-interrupt(not judged)")
					continue
				}
			}
			if ec != "" {
				m.Labels = append(m.Labels, "misuse:"+ec)
				if o.err == nil {
					return &vkit.Failure{Kind: "option-misuse-accepted", Sig: "option-misuse-accepted:" + ec, Msg: fmt.Sprintf("call %d designates an option wrongly (%s) but the call succeeded", i, ec)}
				}
				continue
			}
			if o.err != nil {
				return &vkit.Failure{Kind: "valid-options-rejected", Sig: "valid-options-rejected", Msg: fmt.Sprintf("call %d uses options correctly but failed: %s", i, shortErr(o.err))}
			}
			// every node must have run and received exactly the expected values, all tagged with this call
			for _, n := range all {
				if n.kind == "G" || n.kind == "W" {
					continue
				}
				if !inResume(n.path, false) {
					continue // ran in the first call of the pair
				}
				got := o.rec.got[n.path]
				for _, v := range got {
					if n.kind != "I" && !strings.HasPrefix(v, callID+":") {
						return &vkit.Failure{Kind: "option-leaked-between-calls", Sig: "option-leaked-between-calls", Msg: fmt.Sprintf("node %s in %s received option value %q of another call", n.path, callID, v)}
					}
				}
				if fmt.Sprint(got) != fmt.Sprint(exp[n.path]) {
					return &vkit.Failure{Kind: "option-routing", Sig: "option-routing", Msg: fmt.Sprintf("call %d: node %s (kind %s) received %v, the reference router says %v", i, n.path, n.kind, got, exp[n.path])}
				}
			}
			// designated callbacks: only units at or below the designated path
			for oi, op := range call.Opts {
				if op.Kind != "cb" || op.Path == nil {
					continue
				}
				var targets []string
				for _, pth := range [][]string{op.Path, op.Path2} {
					if pth != nil {
						targets = append(targets, strings.Join(pth, "/"))
					}
				}
				seen := o.rec.cb[fmt.Sprintf("%s#%d", callID, oi)]
				hit := map[string]bool{}
				for _, name := range seen {
					inside := false
					for _, target := range targets {
						if name == target {
							hit[target] = true
							inside = true
						} else if strings.HasPrefix(name, target+"/") || name == "" {
							inside = true
						}
					}
					if !inside {
						return &vkit.Failure{Kind: "designated-callback-leaked", Sig: "designated-callback-leaked", Msg: fmt.Sprintf("call %d: a callback designated to %v was invoked for %s", i, targets, name)}
					}
				}
				for _, target := range targets {
					if !inResume(target, false) {
						continue // started in the first call of the pair (or encloses the point of interruption)
					}
					if !hit[target] {
						return &vkit.Failure{Kind: "designated-callback-not-invoked", Sig: "designated-callback-not-invoked", Msg: fmt.Sprintf("call %d: a callback designated to %v was never invoked at %s (saw %v)", i, targets, target, seen)}
					}
				}
				if len(targets) >= 2 {
					m.Labels = append(m.Labels, "callback-designated-to-two-paths")
				}
			}
		}
		if c.Concurrent {
			m.Labels = append(m.Labels, "concurrent-calls")
		}
		m.NonTrivial = depth >= 1 && len(kinds) >= 3 && designatedDeep && undesignated
		return nil
	})
	return f, m
}

func genNodes16(t *rapid.T, depth int, prefix string, inWorkflow bool) []Node16 {
	n := rapid.IntRange(1, 4).Draw(t, "n")
	var out []Node16
	plain := rapid.IntRange(0, 5).Draw(t, "plainLevel") == 0 // a graph level made of option-less lambdas only
	for i := 0; i < n; i++ {
		kinds := []string{"A", "A", "B", "B", "N", "T", "T", "I"}
		if depth > 0 {
			kinds = append(kinds, "G", "G", "W")
		}
		if plain {
			kinds = []string{"N"}
		}
		k := kinds[rapid.IntRange(0, len(kinds)-1).Draw(t, "kind")]
		nd := Node16{Key: fmt.Sprintf("%s%d", strings.ToLower(k), i), Kind: k}
		if !inWorkflow && k != "W" && rapid.IntRange(0, 4).Draw(t, "keyed") == 0 {
			nd.Keyed = true
		}
		if k == "G" || k == "W" {
			nd.Sub = genNodes16(t, depth-1, prefix+nd.Key+"/", k == "W")
		}
		out = append(out, nd)
	}
	return out
}

func genC16(t *rapid.T) CaseC16 {
	c := CaseC16{Nodes: genNodes16(t, 2, "", false)}
	c.Stream = rapid.IntRange(0, 2).Draw(t, "stream") == 0
	var all []flat16
	flatten(c.Nodes, "", &all)
	paths := make([]string, 0, len(all))
	for _, n := range all {
		paths = append(paths, n.path)
	}
	sort.Strings(paths)
	nc := rapid.IntRange(1, 3).Draw(t, "nCalls")
	for ci := 0; ci < nc; ci++ {
		call := Call16{}
		no := rapid.IntRange(0, 5).Draw(t, "nOpts")
		for oi := 0; oi < no; oi++ {
			o := Opt16{Kind: []string{"A", "A", "B", "T", "T", "cb"}[rapid.IntRange(0, 5).Draw(t, "okind")]}
			if o.Kind != "cb" {
				nv := rapid.IntRange(1, 2).Draw(t, "nVals")
				for v := 0; v < nv; v++ {
					o.Vals = append(o.Vals, fmt.Sprintf("v%d.%d.%d", ci, oi, v))
				}
			}
			switch rapid.IntRange(0, 9).Draw(t, "designate") {
			case 0, 1, 2, 3:
				// undesignated
			case 4, 5, 6, 7:
				// designated to an existing node; mostly one whose kind matches
				var cands []string
				for _, n := range all {
					if n.kind == o.Kind || o.Kind == "cb" || n.kind == "G" || n.kind == "W" {
						cands = append(cands, n.path)
					}
				}
				if len(cands) == 0 || rapid.IntRange(0, 7).Draw(t, "anyNode") == 0 {
					cands = paths
				}
				o.Path = strings.Split(cands[rapid.IntRange(0, len(cands)-1).Draw(t, "target")], "/")
				if len(cands) > 1 && rapid.IntRange(0, 3).Draw(t, "second") == 0 {
					p2 := cands[rapid.IntRange(0, len(cands)-1).Draw(t, "target2")]
					// two distinct targets, neither inside the other
					p1 := strings.Join(o.Path, "/")
					if p2 != p1 && !strings.HasPrefix(p2, p1+"/") && !strings.HasPrefix(p1, p2+"/") {
						o.Path2 = strings.Split(p2, "/")
					}
				}
			case 8:
				// unknown node somewhere on the path
				p := strings.Split(paths[rapid.IntRange(0, len(paths)-1).Draw(t, "base")], "/")
				p[rapid.IntRange(0, len(p)-1).Draw(t, "which")] = "nope"
				o.Path = p
			default:
				// a path that continues below an existing node
				p := strings.Split(paths[rapid.IntRange(0, len(paths)-1).Draw(t, "base")], "/")
				o.Path = append(p, "below")
			}
			if o.Kind != "cb" && (o.Path == nil || len(o.Path) > 0) && rapid.IntRange(0, 2).Draw(t, "derive") == 0 {
				// derive further options from the base value; targets are leaf nodes of the option's kind
				var leaves []string
				for _, n := range all {
					if n.kind == o.Kind {
						leaves = append(leaves, n.path)
					}
				}
				valid := true
				for _, pth := range [][]string{o.Path, o.Path2} {
					if pth != nil {
						if _, ec := find(c.Nodes, pth); ec != "" {
							valid = false
						}
					}
				}
				if len(leaves) > 0 && valid {
					for k := rapid.IntRange(0, 3).Draw(t, "nExtra"); k > 0; k-- {
						o.Extra = append(o.Extra, strings.Split(leaves[rapid.IntRange(0, len(leaves)-1).Draw(t, "extra")], "/"))
					}
					for k := rapid.IntRange(1, 3).Draw(t, "nSibs"); k > 0; k-- {
						o.Sibs = append(o.Sibs, strings.Split(leaves[rapid.IntRange(0, len(leaves)-1).Draw(t, "sib")], "/"))
					}
					o.DropBase = rapid.Bool().Draw(t, "dropBase")
				}
			}
			call.Opts = append(call.Opts, o)
		}
		c.Calls = append(c.Calls, call)
	}
	c.Concurrent = nc >= 2 && rapid.Bool().Draw(t, "concurrent")
	if rapid.IntRange(0, 3).Draw(t, "resume") == 0 {
		var deep []string
		for _, n := range all {
			if n.kind != "G" && n.kind != "W" && strings.Contains(n.path, "/") {
				deep = append(deep, n.path)
			}
		}
		if len(deep) > 0 {
			c.Resume = strings.Split(deep[rapid.IntRange(0, len(deep)-1).Draw(t, "resumeAt")], "/")
		}
	}
	return c
}

func TestC16(t *testing.T) {
	rec := vkit.NewRecorder("C16")
	vkit.Prop(t, rec, genC16, checkC16)
}

func TestC16Replay(t *testing.T) {
	vkit.Replay(t, "C16", checkC16)
}
