package compose_test

// C11: graph state is per run and accessed under mutual exclusion; handlers run pre -> node ->
// post and what they return is what flows; updates are never lost when nodes run in parallel;
// the state survives interrupt/resume apart from the caller's modification.
//
// Part A (TestC11): generated stateful graphs (all modes, nested stateful and stateless graphs,
// value and stream pre/post handlers, ProcessState inside bodies) whose top-level lambdas are
// gated so that state accesses overlap; every state callback performs read - yield - write on a
// counter and runs inside a monitor.  Oracle: the monitor never sees two callbacks inside at
// once; every counter equals the number of invocations the reference model predicts (no lost
// update); per execution the state log shows pre, then the body's ProcessState, then post; the
// output equals the reference (handlers' return values flow); the state generator ran exactly
// once for the run and once per execution of a nested stateful graph; two concurrent runs never
// see the same state object.  Built with -race.
// Part B (TestC11Resume): the interrupt/resume histories of C05 with a caller-supplied
// StateModifier on every resume: the final state equals the uninterrupted state plus exactly the
// modifier's edits.

import (
	"context"
	"fmt"
	"runtime"
	"strings"
	"sync"
	"testing"
	"time"

	"github.com/cloudwego/eino/compose"
	"github.com/cloudwego/eino/internal/gkit"
	"github.com/cloudwego/eino/internal/vkit"
	rapid "github.com/cloudwego/eino/internal/vrapid"
)

type CaseC11 struct {
	Spec     *gkit.Spec `json:"spec"`
	Input    any        `json:"input"`
	Paradigm string     `json:"paradigm"`
	Release  []int      `json:"release"`
	Yields   int        `json:"yields"`
	Runs     int        `json:"runs"` // number of concurrent top-level runs (1-3)
}

func genC11(t *rapid.T) CaseC11 {
	cfg := gkit.GenCfg{MaxNodes: 6, Depth: 1, Cycles: true, NoFailMix: true, State: true, PS: true, SubModes: []string{"pregel", "dag", "workflow"}}
	mode := []string{"pregel", "pregel", "dag", "workflow"}[rapid.IntRange(0, 3).Draw(t, "mode")]
	c := CaseC11{Spec: gkit.GenTop(t, mode, cfg)}
	c.Spec.State = true
	c.Input = gkit.GenInput(t, c.Spec.In)
	c.Paradigm = []string{"invoke", "invoke", "stream"}[rapid.IntRange(0, 2).Draw(t, "paradigm")]
	allLambdas(c.Spec, "", false, func(n *gkit.NodeSpec, tag string, nm bool) {
		if !strings.Contains(tag, "/") {
			n.Gate = true
			if rapid.IntRange(0, 1).Draw(t, "ps") == 0 {
				n.PS = true
			}
		}
	})
	for i := 0; i < 8; i++ {
		c.Release = append(c.Release, rapid.IntRange(0, 7).Draw(t, "rel"))
	}
	c.Yields = rapid.IntRange(0, 3).Draw(t, "yields")
	c.Runs = []int{1, 1, 2, 3}[rapid.IntRange(0, 3).Draw(t, "runs")]
	return c
}

// runGated runs one call and releases gated bodies in the generated order once the set of
// waiting bodies is quiescent.  It returns the maximum number of bodies seen waiting at once.
func runGated(ctx context.Context, r *gkit.Runner, env *gkit.CallEnv, cg CaseGraph, release []int, opts ...compose.Option) (out any, rerr error, overlapped int) {
	env.Ctl = gkit.NewController()
	done := make(chan struct{})
	go func() {
		defer close(done)
		defer func() {
			if p := recover(); p != nil {
				rerr = fmt.Errorf("panic: %v", p)
			}
		}()
		out, rerr = runSpec(ctx, r, env, cg, opts...)
	}()
	k := 0
	deadline := time.Now().Add(30 * time.Second)
	for {
		select {
		case <-done:
			env.Ctl.ReleaseAll()
			return out, rerr, overlapped
		default:
		}
		w1 := env.Ctl.Waiting()
		if len(w1) == 0 {
			time.Sleep(50 * time.Microsecond)
			if time.Now().After(deadline) {
				env.Ctl.ReleaseAll()
			}
			continue
		}
		time.Sleep(150 * time.Microsecond)
		w2 := env.Ctl.Waiting()
		if len(w2) != len(w1) {
			continue
		}
		if len(w2) > overlapped {
			overlapped = len(w2)
		}
		pick := w2[release[k%len(release)]%len(w2)]
		k++
		env.Ctl.Release(pick)
	}
}

// expectedCounts derives, from the reference model, how often every state callback runs, grouped
// by the graph that owns the state it works on.
func expectedCounts(sp *gkit.Spec, ref *gkit.RefResult) map[string]map[string]int {
	exp := map[string]map[string]int{}
	lambdaRuns := map[string]int{}
	for _, e := range ref.Execs {
		lambdaRuns[e.Node]++
	}
	var walk func(sp *gkit.Spec, path, owner string)
	walk = func(sp *gkit.Spec, path, owner string) {
		if sp.State {
			owner = path
		}
		add := func(what string, n int) {
			if n == 0 {
				return
			}
			if exp[owner] == nil {
				exp[owner] = map[string]int{}
			}
			exp[owner][what] += n
		}
		for i := range sp.Nodes {
			n := &sp.Nodes[i]
			tag := path + n.Key
			runs := ref.NodeRuns[tag]
			if n.Kind == "lambda" {
				runs = lambdaRuns[tag]
			}
			if n.Kind != "pass" {
				if n.PreH != "" {
					add("pre:"+tag, ref.NodeRuns[tag])
				}
				if n.PostH != "" {
					add("post:"+tag, ref.NodeRuns[tag])
				}
			}
			if n.Kind == "lambda" && n.PS {
				add("ps:"+tag, runs)
			}
			if n.Kind == "graph" {
				walk(n.Sub, tag+"/", owner)
			}
		}
	}
	walk(sp, "", "")
	return exp
}

func checkC11(c CaseC11) (*vkit.Failure, vkit.Meta) {
	var m vkit.Meta
	if c.Spec == nil || len(c.Release) == 0 {
		return nil, m
	}
	f := vkit.Guard("panic-escaped", func() *vkit.Failure {
		in := fixInput(c.Spec, c.Input)
		ref := gkit.Ref(c.Spec, "", in, gkit.RefOpts{})
		m.Labels = append(m.Labels, "mode:"+c.Spec.Mode, "paradigm:"+c.Paradigm, "ref:"+refClass(ref))
		if ref.Fail != "" || ref.Ambiguous || len(ref.OptionalNodes) > 0 {
			m.Labels = append(m.Labels, "not-a-clean-run-skipped")
			return nil
		}
		ctx := context.Background()
		r, err := gkit.Compile(ctx, c.Spec, nil)
		if err != nil {
			return vkit.Failf("compile-rejected-wellformed-graph", "Compile failed: %v", err)
		}
		runs := c.Runs
		if runs < 1 {
			runs = 1
		}
		type res struct {
			env        *gkit.CallEnv
			out        any
			err        error
			overlapped int
		}
		results := make([]res, runs)
		var wg sync.WaitGroup
		for i := 0; i < runs; i++ {
			wg.Add(1)
			go func(i int) {
				defer wg.Done()
				env := gkit.NewEnv(fmt.Sprintf("run%d", i))
				env.MaxRunsPerNode = 400
				env.Mon = &gkit.StateMonitor{Yield: func() {
					for k := 0; k < c.Yields; k++ {
						runtime.Gosched()
					}
				}}
				out, rerr, ov := runGated(ctx, r, env, CaseGraph{Spec: c.Spec, Input: in, Paradigm: c.Paradigm}, c.Release)
				results[i] = res{env, out, rerr, ov}
			}(i)
		}
		wg.Wait()
		nestedStateful := false
		exp := expectedCounts(c.Spec, ref)
		for owner := range exp {
			if owner != "" {
				nestedStateful = true
			}
		}
		maxOverlap := 0
		for i, rs := range results {
			if rs.err != nil {
				return vkit.Failf("run-failed", "run %d failed although the reference predicts a clean run: %s", i, shortErr(rs.err))
			}
			if gkit.Canon(rs.out) != gkit.Canon(ref.Out) {
				return &vkit.Failure{Kind: "handler-values-do-not-flow", Sig: "handler-values-do-not-flow", Msg: fmt.Sprintf("run %d: output %q, reference (with the handlers' return values) %q", i, vkit.Short(gkit.Canon(rs.out), 200), vkit.Short(gkit.Canon(ref.Out), 200))}
			}
			if d := gkit.DiffExecs(rs.env.Execs(), ref.Execs); d != "" {
				return &vkit.Failure{Kind: "executions-mismatch", Sig: "executions-mismatch", Msg: fmt.Sprintf("run %d: %s", i, d)}
			}
			if rs.env.Mon.Overlaps > 0 {
				return &vkit.Failure{Kind: "state-callbacks-overlap", Sig: "state-callbacks-overlap", Msg: fmt.Sprintf("run %d: %d times two state callbacks (pre/post handler, ProcessState) were inside at the same time", i, rs.env.Mon.Overlaps)}
			}
			if rs.overlapped > maxOverlap {
				maxOverlap = rs.overlapped
			}
			// state generator: once for the run plus once per execution of a nested stateful graph
			wantStates := 0
			var count func(sp *gkit.Spec, path string)
			count = func(sp *gkit.Spec, path string) {
				for j := range sp.Nodes {
					n := &sp.Nodes[j]
					if n.Kind == "graph" {
						if n.Sub.State {
							wantStates += ref.NodeRuns[path+n.Key]
						}
						count(n.Sub, path+n.Key+"/")
					}
				}
			}
			if c.Spec.State {
				wantStates = 1
			}
			count(c.Spec, "")
			if rs.env.StatesMade != wantStates {
				return &vkit.Failure{Kind: "state-generator-count", Sig: "state-generator-count", Msg: fmt.Sprintf("run %d: the state generator ran %d times, expected %d (one per run and per execution of a nested stateful graph)", i, rs.env.StatesMade, wantStates)}
			}
			// counters: no lost update (top-level state; nested stateful graphs executed once)
			owned := rs.env.OwnedStates(c.Spec)
			for owner, want := range exp {
				if owner != "" && ref.NodeRuns[strings.TrimSuffix(owner, "/")] != 1 {
					continue
				}
				st := owned[owner]
				got := map[string]int{}
				if st != nil {
					got = rs.env.CountsOf(st)
				}
				if fmt.Sprint(sortedMap(got)) != fmt.Sprint(sortedMap(want)) {
					return &vkit.Failure{Kind: "state-update-lost", Sig: "state-update-lost", Msg: fmt.Sprintf("run %d, state of graph %q: counters %v, invocations predicted %v", i, owner, sortedMap(got), sortedMap(want))}
				}
				// order per node: pre before ps before post within every execution
				if st != nil {
					if f := checkStateLog(st.Log); f != nil {
						return f
					}
				}
			}
		}
		// isolation: state objects of different runs are different objects
		seen := map[*gkit.GState]int{}
		for i, rs := range results {
			for _, st := range rs.env.OwnedStates(c.Spec) {
				if j, dup := seen[st]; dup && j != i {
					return &vkit.Failure{Kind: "state-shared-between-runs", Sig: "state-shared-between-runs", Msg: fmt.Sprintf("runs %d and %d worked on the same state object", j, i)}
				}
				seen[st] = i
			}
		}
		if maxOverlap >= 2 {
			m.Labels = append(m.Labels, "gated-bodies-overlapped")
		}
		if nestedStateful {
			m.Labels = append(m.Labels, "nested-state")
		}
		if runs > 1 {
			m.Labels = append(m.Labels, "concurrent-runs")
		}
		m.NonTrivial = maxOverlap >= 2 || nestedStateful
		return nil
	})
	return f, m
}

// checkStateLog: for every node the log restricted to its entries must repeat pre, ps, post in
// this order (each phase optional but never out of order within an execution).
func checkStateLog(log []string) *vkit.Failure {
	per := map[string][]string{}
	for _, e := range log {
		i := strings.IndexByte(e, ':')
		if i < 0 {
			continue
		}
		per[e[i+1:]] = append(per[e[i+1:]], e[:i])
	}
	rank := map[string]int{"pre": 0, "ps": 1, "post": 2}
	for tag, phases := range per {
		// which phases does this node have at all?
		has := map[string]bool{}
		for _, p := range phases {
			has[p] = true
		}
		n := len(has)
		if n == 0 || len(phases)%n != 0 {
			return vkit.Failf("state-phase-order", "node %s: state log %v is not a whole number of (pre, body, post) rounds", tag, phases)
		}
		for i := 0; i+n <= len(phases); i += n {
			for j := i + 1; j < i+n; j++ {
				if rank[phases[j-1]] >= rank[phases[j]] {
					return vkit.Failf("state-phase-order", "node %s: state log %v violates pre -> body -> post", tag, phases)
				}
			}
		}
	}
	return nil
}

func TestC11(t *testing.T) {
	rec := vkit.NewRecorder("C11")
	vkit.Prop(t, rec, genC11, checkC11)
}

func TestC11Replay(t *testing.T) {
	vkit.Replay(t, "C11", checkC11)
}
