package compose_test

// C09 (graphs): one compiled runnable used from several goroutines at once.
// Generated: graphs of every kind (state with handlers and ProcessState, branches, nesting,
// native paradigm subsets), 2-8 goroutines x 1-3 calls each with distinct inputs, the four
// paradigms mixed, a start barrier and generated yields inside node bodies so that calls overlap,
// per-call callback handlers.
// Oracle: every call's output and executed (node, input) multiset equal the reference model for
// its own input (the single-run oracle); the per-call handler sees exactly its own call (graph
// start payload = its input, one start, one end); every run gets its own state object(s); the
// race detector reports no race whose stack lies in eino (the driver classifies the report).

import (
	"context"
	"fmt"
	"runtime"
	"strings"
	"sync"
	"testing"

	"github.com/cloudwego/eino/callbacks"
	"github.com/cloudwego/eino/compose"
	"github.com/cloudwego/eino/internal/gkit"
	"github.com/cloudwego/eino/internal/vkit"
	rapid "github.com/cloudwego/eino/internal/vrapid"
	"github.com/cloudwego/eino/schema"
)

type CaseC09 struct {
	Spec      *gkit.Spec `json:"spec"`
	Workers   int        `json:"workers"`
	CallsPer  int        `json:"callsper"`
	Inputs    []any      `json:"inputs"`    // one per call (worker-major)
	Paradigms []string   `json:"paradigms"` // cycled per call
	Yields    int        `json:"yields"`
	CtxCbs    int        `json:"ctxcbs"`  // handlers installed on the context every call derives from (slice with spare capacity)
	OptNode   int        `json:"optnode"` // index into the addressable lambda nodes: target of an option value shared by all calls
}

// lambdaPaths lists the lambda nodes addressable by key path (chains generate their node keys).
func lambdaPaths(sp *gkit.Spec, prefix []string) [][]string {
	if sp == nil || sp.Mode == "chain" {
		return nil
	}
	var out [][]string
	for i := range sp.Nodes {
		n := &sp.Nodes[i]
		p := append(append([]string(nil), prefix...), n.Key)
		switch n.Kind {
		case "lambda":
			out = append(out, p)
		case "graph":
			out = append(out, lambdaPaths(n.Sub, p)...)
		}
	}
	return out
}

type shared09 struct {
	mu     sync.Mutex
	starts map[string]int // env tag + "|" + run info name
}

func (h *shared09) note(ctx context.Context, info *callbacks.RunInfo) {
	env := gkit.EnvOf(ctx)
	if env == nil || info == nil {
		return
	}
	h.mu.Lock()
	h.starts[env.Tag+"|"+info.Name]++
	h.mu.Unlock()
}

func (h *shared09) handler() callbacks.Handler {
	return callbacks.NewHandlerBuilder().
		OnStartFn(func(ctx context.Context, info *callbacks.RunInfo, in callbacks.CallbackInput) context.Context {
			h.note(ctx, info)
			return ctx
		}).
		OnStartWithStreamInputFn(func(ctx context.Context, info *callbacks.RunInfo, in *schema.StreamReader[callbacks.CallbackInput]) context.Context {
			in.Close()
			h.note(ctx, info)
			return ctx
		}).Build()
}

func genC09(t *rapid.T) CaseC09 {
	cfg := gkit.GenCfg{MaxNodes: 6, Depth: 1, Cycles: true, NoFailMix: true, State: true, PS: true, Paradigms: true, StreamBr: true,
		SubModes: []string{"pregel", "dag", "workflow", "chain"}}
	mode := []string{"pregel", "pregel", "dag", "workflow", "chain"}[rapid.IntRange(0, 4).Draw(t, "mode")]
	c := CaseC09{Spec: gkit.GenTop(t, mode, cfg)}
	c.Workers = rapid.IntRange(2, 8).Draw(t, "workers")
	c.CallsPer = rapid.IntRange(1, 3).Draw(t, "callsPer")
	for i := 0; i < c.Workers*c.CallsPer; i++ {
		in := gkit.GenInput(t, c.Spec.In)
		// make inputs distinct: prefix with the call number
		switch x := in.(type) {
		case string:
			in = fmt.Sprintf("%d%s", i, x)
		case map[string]any:
			x["x"] = fmt.Sprintf("%d%v", i, x["x"])
		}
		c.Inputs = append(c.Inputs, in)
	}
	for i := rapid.IntRange(1, 4).Draw(t, "nPar"); i > 0; i-- {
		c.Paradigms = append(c.Paradigms, []string{"invoke", "stream", "collect", "transform"}[rapid.IntRange(0, 3).Draw(t, "par")])
	}
	c.Yields = rapid.IntRange(0, 3).Draw(t, "yields")
	c.OptNode = rapid.IntRange(0, 7).Draw(t, "optNode")
	c.CtxCbs = rapid.IntRange(0, 3).Draw(t, "ctxCbs")
	return c
}

type cb09 struct {
	mu     sync.Mutex
	starts []string
	ends   int
}

func (h *cb09) handler() callbacks.Handler {
	return callbacks.NewHandlerBuilder().
		OnStartFn(func(ctx context.Context, info *callbacks.RunInfo, in callbacks.CallbackInput) context.Context {
			if info != nil && info.Name == "TOP" {
				h.mu.Lock()
				h.starts = append(h.starts, gkit.Canon(in))
				h.mu.Unlock()
			}
			return ctx
		}).
		OnStartWithStreamInputFn(func(ctx context.Context, info *callbacks.RunInfo, in *schema.StreamReader[callbacks.CallbackInput]) context.Context {
			defer in.Close()
			if info != nil && info.Name == "TOP" {
				var chunks []any
				for {
					c, err := in.Recv()
					if err != nil {
						break
					}
					chunks = append(chunks, c)
				}
				v, _ := gkit.ConcatAny(chunks)
				h.mu.Lock()
				h.starts = append(h.starts, gkit.Canon(v))
				h.mu.Unlock()
			}
			return ctx
		}).
		OnEndFn(func(ctx context.Context, info *callbacks.RunInfo, out callbacks.CallbackOutput) context.Context {
			if info != nil && info.Name == "TOP" {
				h.mu.Lock()
				h.ends++
				h.mu.Unlock()
			}
			return ctx
		}).
		OnEndWithStreamOutputFn(func(ctx context.Context, info *callbacks.RunInfo, out *schema.StreamReader[callbacks.CallbackOutput]) context.Context {
			out.Close()
			if info != nil && info.Name == "TOP" {
				h.mu.Lock()
				h.ends++
				h.mu.Unlock()
			}
			return ctx
		}).
		OnErrorFn(func(ctx context.Context, info *callbacks.RunInfo, err error) context.Context {
			if info != nil && info.Name == "TOP" {
				h.mu.Lock()
				h.ends++
				h.mu.Unlock()
			}
			return ctx
		}).Build()
}

var c09Rec *vkit.Recorder

func checkC09(c CaseC09) (*vkit.Failure, vkit.Meta) {
	var m vkit.Meta
	if c.Spec == nil || c.Workers < 1 || len(c.Inputs) < c.Workers*c.CallsPer || len(c.Paradigms) == 0 {
		return nil, m
	}
	if c09Rec != nil {
		c09Rec.Current(c) // a race report does not stop the process, but a fatal "concurrent map writes" does
		defer c09Rec.ClearCurrent()
	}
	f := vkit.Guard("panic-escaped", func() *vkit.Failure {
		ctx := context.Background()
		r, err := gkit.Compile(ctx, c.Spec, &gkit.BuildOpts{ExtraComp: []compose.GraphCompileOption{compose.WithGraphName("TOP")}})
		if err != nil {
			return vkit.Failf("compile-rejected-wellformed-graph", "Compile failed: %v", err)
		}
		n := c.Workers * c.CallsPer
		type res struct {
			out  any
			err  error
			env  *gkit.CallEnv
			cb   *cb09
			par  string
			skip bool
		}
		results := make([]res, n)
		refs := make([]*gkit.RefResult, n)
		for i := 0; i < n; i++ {
			refs[i] = gkit.Ref(c.Spec, "", fixInput(c.Spec, c.Inputs[i]), gkit.RefOpts{})
			big := baseClass(refs[i].Fail) == "toobig" || refs[i].MaxSize > 1<<13 || len(gkit.Canon(refs[i].Out)) > 1<<16
			for _, e := range refs[i].Execs {
				if len(e.In) > 1<<16 {
					big = true
				}
			}
			if baseClass(refs[i].Fail) == "merge" {
				for _, pd := range c.Paradigms {
					if pd != "invoke" {
						// duplicate keys are only detected when values are merged; a streamed call merges chunk-wise, does not
						// fail there, and - in a loop - may go on with values that double every step
						big = true
					}
				}
			}
			if big {
				// values that grow geometrically in a loop: the reference gave up, and the run itself would spend minutes
				// rendering them - nothing is asserted (a slow case must not look like a stuck one)
				m.Labels = append(m.Labels, "values-too-big-skipped")
				return nil
			}
		}
		// one option value shared by every call, designated to one (possibly nested) lambda node
		sh := &shared09{starts: map[string]int{}}
		var sharedOpts []compose.Option
		target := ""
		if lp := lambdaPaths(c.Spec, nil); len(lp) > 0 {
			p := lp[c.OptNode%len(lp)]
			target = strings.Join(p, "/")
			sharedOpts = append(sharedOpts, compose.WithCallbacks(sh.handler()).DesignateNodeWithPath(compose.NewNodePath(p...)))
		}
		// handlers inherited from a context that all calls share; the slice has spare capacity
		var ctxShared []*shared09
		if c.CtxCbs > 0 {
			hs := make([]callbacks.Handler, 0, c.CtxCbs+4)
			for k := 0; k < c.CtxCbs; k++ {
				sc := &shared09{starts: map[string]int{}}
				ctxShared = append(ctxShared, sc)
				hs = append(hs, sc.handler())
			}
			ctx = callbacks.InitCallbacks(ctx, &callbacks.RunInfo{Name: "outer"}, hs...)
		}
		start := make(chan struct{})
		var wg sync.WaitGroup
		for w := 0; w < c.Workers; w++ {
			wg.Add(1)
			go func(w int) {
				defer wg.Done()
				<-start
				for k := 0; k < c.CallsPer; k++ {
					i := w*c.CallsPer + k
					env := gkit.NewEnv(fmt.Sprintf("call%d", i))
					env.MaxRunsPerNode = 400
					env.Hook = func(ctx context.Context, n *gkit.NodeSpec, tag, in string) {
						for y := 0; y < c.Yields; y++ {
							runtime.Gosched()
						}
					}
					h := &cb09{}
					par := c.Paradigms[i%len(c.Paradigms)]
					in := fixInput(c.Spec, c.Inputs[i])
					cctx := env.With(ctx)
					var out any
					var rerr error
					func() {
						defer func() {
							if p := recover(); p != nil {
								rerr = fmt.Errorf("panic: %v", p)
							}
						}()
						opt := append([]compose.Option{compose.WithCallbacks(h.handler())}, sharedOpts...)
						switch par {
						case "invoke":
							out, rerr = r.Invoke(cctx, in, opt...)
						case "stream":
							sr, e := r.Stream(cctx, in, opt...)
							rerr = e
							if e == nil {
								out, _, rerr = gkit.DrainAny(sr)
							}
						case "collect":
							out, rerr = r.Collect(cctx, gkit.ChunkInput(in, 2), opt...)
						default:
							sr, e := r.Transform(cctx, gkit.ChunkInput(in, 2), opt...)
							rerr = e
							if e == nil {
								out, _, rerr = gkit.DrainAny(sr)
							}
						}
					}()
					results[i] = res{out: out, err: rerr, env: env, cb: h, par: par}
				}
			}(w)
		}
		close(start)
		wg.Wait()
		m.Labels = append(m.Labels, "mode:"+c.Spec.Mode, fmt.Sprintf("workers:%d", c.Workers))
		stateful := c.Spec.State
		sharedHit := false
		for i, rs := range results {
			ref := refs[i]
			if ref.Ambiguous || baseClass(ref.Fail) == "merge" {
				continue
			}
			if rs.err != nil && len(rs.err.Error()) > 6 && rs.err.Error()[:6] == "panic:" {
				return vkit.Failf("panic-escaped", "call %d (%s) panicked while %d calls ran concurrently: %v", i, rs.par, n, rs.err)
			}
			got, want := classifyErr(rs.err), baseClass(ref.Fail)
			if got != want {
				return &vkit.Failure{Kind: "concurrent-outcome", Sig: "concurrent-outcome", Msg: fmt.Sprintf("call %d (%s, one of %d concurrent calls) ended with %q, alone it ends with %q (err=%s)", i, rs.par, n, got, want, shortErr(rs.err))}
			}
			if want == "" && gkit.Canon(rs.out) != gkit.Canon(ref.Out) {
				return &vkit.Failure{Kind: "concurrent-output", Sig: "concurrent-output", Msg: fmt.Sprintf("call %d (%s, one of %d concurrent calls) returned %q, alone it returns %q", i, rs.par, n, vkit.Short(gkit.Canon(rs.out), 200), vkit.Short(gkit.Canon(ref.Out), 200))}
			}
			if want == "" && !ref.ExecsUncertain {
				if d := gkit.DiffExecs(rs.env.Execs(), ref.Execs, ref.Optional...); d != "" {
					return &vkit.Failure{Kind: "concurrent-executions", Sig: "concurrent-executions", Msg: fmt.Sprintf("call %d: %s", i, d)}
				}
			}
			if want == "" && !ref.ExecsUncertain && target != "" {
				wantN, optional := 0, false
				for _, e := range ref.Execs {
					if e.Node == target {
						wantN++
					}
				}
				for _, o := range ref.Optional {
					if o.Node == target {
						optional = true
					}
				}
				sh.mu.Lock()
				gotN := sh.starts[rs.env.Tag+"|"+target]
				sh.mu.Unlock()
				if wantN > 0 && gotN == wantN {
					sharedHit = true
				}
				if !optional && gotN != wantN {
					return &vkit.Failure{Kind: "shared-option-crossed", Sig: "shared-option-crossed", Msg: fmt.Sprintf("call %d: the handler of the option shared by all calls (designated to %s) saw %d starts of that node under this call's context, the call executes it %d times", i, target, gotN, wantN)}
				}
			}
			if want == "" {
				for k, sc := range ctxShared {
					sc.mu.Lock()
					gotN := sc.starts[rs.env.Tag+"|TOP"]
					sc.mu.Unlock()
					if gotN != 1 {
						return &vkit.Failure{Kind: "inherited-handler-crossed", Sig: "inherited-handler-crossed", Msg: fmt.Sprintf("call %d: handler %d of the context shared by all calls saw %d graph starts under this call's context, expected 1", i, k, gotN)}
					}
				}
			}
			if want == "" {
				rs.cb.mu.Lock()
				starts, ends := append([]string(nil), rs.cb.starts...), rs.cb.ends
				rs.cb.mu.Unlock()
				inCanon := gkit.Canon(fixInput(c.Spec, c.Inputs[i]))
				if len(starts) != 1 || ends != 1 || starts[0] != inCanon {
					return &vkit.Failure{Kind: "callback-context-crossed", Sig: "callback-context-crossed", Msg: fmt.Sprintf("call %d: its own handler saw graph starts %q and %d ends; expected exactly one start with its input %q and one end", i, starts, ends, inCanon)}
				}
			}
		}
		if sharedHit {
			m.Labels = append(m.Labels, "shared-option-target-ran")
		}
		// state isolation
		seen := map[*gkit.GState]int{}
		for i, rs := range results {
			if rs.env == nil {
				continue
			}
			for _, st := range rs.env.OwnedStates(c.Spec) {
				if j, dup := seen[st]; dup && j != i {
					return &vkit.Failure{Kind: "state-shared-between-runs", Sig: "state-shared-between-runs", Msg: fmt.Sprintf("calls %d and %d worked on the same state object", j, i)}
				}
				seen[st] = i
			}
		}
		nested := false
		for i := range c.Spec.Nodes {
			if c.Spec.Nodes[i].Kind == "graph" {
				nested = true
			}
		}
		m.NonTrivial = n >= 3 && (stateful || len(c.Spec.Branches) > 0 || nested)
		return nil
	})
	return f, m
}

func TestC09(t *testing.T) {
	c09Rec = vkit.NewRecorder("C09")
	vkit.Prop(t, c09Rec, genC09, checkC09)
}

func TestC09Replay(t *testing.T) {
	vkit.Replay(t, "C09", checkC09)
}
