package compose_test

// C10, components part: units that fire their own callbacks (a ChatTemplate component, lambdas that
// declare callbacks enabled and call callbacks.OnStart / OnEnd / OnError themselves) next to units whose
// callbacks the graph fires, and handlers that implement only a subset of the timings (HandlerBuilder with
// any subset of start / end / error functions, which is what its TimingChecker reports).
//
// Oracle (history invariant): for every executed unit and every handler that applies to it, the handler's
// start function ran exactly once if it has one; its end function exactly once iff the unit succeeded; its
// error function exactly once iff the unit failed; functions a handler does not have are simply not needed -
// a run with a failing unit reports that unit's own error, not a recovered panic.

import (
	"context"
	"errors"
	"fmt"
	"strings"
	"sync"
	"testing"

	"github.com/cloudwego/eino/callbacks"
	"github.com/cloudwego/eino/components/prompt"
	"github.com/cloudwego/eino/compose"
	"github.com/cloudwego/eino/internal/vkit"
	rapid "github.com/cloudwego/eino/internal/vrapid"
	"github.com/cloudwego/eino/schema"
)

type N10c struct {
	Kind string `json:"kind"` // plain | self | tpl
	Fail bool   `json:"fail,omitempty"`
}

type H10c struct {
	Start, End, Err bool
	Node            int  `json:"node"` // -1 = not designated
	Global          bool `json:"global,omitempty"`
}

type CaseC10c struct {
	Nodes    []N10c `json:"nodes"`
	Handlers []H10c `json:"handlers"`
	Paradigm string `json:"paradigm"`
}

var errC10c = errors.New("c10c sentinel")

func genC10c(t *rapid.T) CaseC10c {
	c := CaseC10c{Paradigm: []string{"invoke", "stream"}[rapid.IntRange(0, 1).Draw(t, "paradigm")]}
	n := rapid.IntRange(1, 4).Draw(t, "nNodes")
	failAt := -1
	if rapid.IntRange(0, 2).Draw(t, "fails") > 0 {
		failAt = rapid.IntRange(0, n-1).Draw(t, "failAt")
	}
	for i := 0; i < n; i++ {
		c.Nodes = append(c.Nodes, N10c{Kind: []string{"plain", "self", "self", "tpl"}[rapid.IntRange(0, 3).Draw(t, "kind")], Fail: i == failAt})
	}
	for i := rapid.IntRange(1, 4).Draw(t, "nHandlers"); i > 0; i-- {
		h := H10c{Start: rapid.Bool().Draw(t, "hs"), End: rapid.Bool().Draw(t, "he"), Err: rapid.Bool().Draw(t, "hx"), Node: -1}
		switch rapid.IntRange(0, 3).Draw(t, "where") {
		case 0:
			h.Node = rapid.IntRange(0, n-1).Draw(t, "hnode")
		case 1:
			h.Global = true
		}
		c.Handlers = append(c.Handlers, h)
	}
	return c
}

type rec10c struct {
	mu  sync.Mutex
	cnt map[string]int // handler/timing/node
}

func (r *rec10c) hit(h int, timing, node string) {
	r.mu.Lock()
	r.cnt[fmt.Sprintf("%d/%s/%s", h, timing, node)]++
	r.mu.Unlock()
}

func (d H10c) build(i int, rec *rec10c) callbacks.Handler {
	b := callbacks.NewHandlerBuilder()
	if d.Start {
		b = b.OnStartFn(func(ctx context.Context, info *callbacks.RunInfo, in callbacks.CallbackInput) context.Context {
			rec.hit(i, "start", nameOf(info))
			return ctx
		})
	}
	if d.End {
		b = b.OnEndFn(func(ctx context.Context, info *callbacks.RunInfo, out callbacks.CallbackOutput) context.Context {
			rec.hit(i, "end", nameOf(info))
			return ctx
		})
	}
	if d.Err {
		b = b.OnErrorFn(func(ctx context.Context, info *callbacks.RunInfo, err error) context.Context {
			rec.hit(i, "error", nameOf(info))
			return ctx
		})
	}
	return b.Build()
}

func checkC10c(c CaseC10c) (*vkit.Failure, vkit.Meta) {
	m := vkit.Meta{Labels: []string{"paradigm:" + c.Paradigm}}
	if len(c.Nodes) == 0 {
		return nil, m
	}
	f := vkit.Guard("panic-escaped", func() *vkit.Failure {
		ctx := context.Background()
		g := compose.NewGraph[map[string]any, map[string]any]()
		prev := compose.START
		names := make([]string, len(c.Nodes))
		failing := -1
		for i, nd := range c.Nodes {
			i, nd := i, nd
			key := fmt.Sprintf("u%d", i)
			names[i] = key
			if nd.Fail {
				failing = i
			}
			var err error
			switch nd.Kind {
			case "plain":
				err = g.AddLambdaNode(key, compose.InvokableLambda(func(ctx context.Context, in map[string]any) (map[string]any, error) {
					if nd.Fail {
						return nil, fmt.Errorf("unit %s fails: %w", key, errC10c)
					}
					return map[string]any{"q": fmt.Sprint(in["q"]) + "." + key}, nil
				}), compose.WithNodeName(key))
			case "self":
				err = g.AddLambdaNode(key, compose.InvokableLambda(func(ctx context.Context, in map[string]any) (map[string]any, error) {
					ctx = callbacks.OnStart(ctx, in)
					if nd.Fail {
						e := fmt.Errorf("unit %s fails: %w", key, errC10c)
						callbacks.OnError(ctx, e)
						return nil, e
					}
					out := map[string]any{"q": fmt.Sprint(in["q"]) + "." + key}
					callbacks.OnEnd(ctx, out)
					return out, nil
				}, compose.WithLambdaCallbackEnable(true)), compose.WithNodeName(key))
			case "tpl":
				// the template needs {q}; a failing template unit asks for a variable the input never carries
				v := "{q}"
				if nd.Fail {
					v = "{missing_variable}"
				}
				err = g.AddChatTemplateNode(key, prompt.FromMessages(schema.FString, schema.UserMessage(v)), compose.WithNodeName(key))
				if err == nil {
					if err = g.AddEdge(prev, key); err == nil {
						prev = key
						key = key + "_m"
						err = g.AddLambdaNode(key, compose.InvokableLambda(func(ctx context.Context, in []*schema.Message) (map[string]any, error) {
							s := ""
							for _, mm := range in {
								s += mm.Content
							}
							return map[string]any{"q": s}, nil
						}), compose.WithNodeName(key))
					}
				}
			}
			if err == nil {
				err = g.AddEdge(prev, key)
			}
			if err != nil {
				return vkit.Failf("build-failed", "building the pipeline failed: %v", err)
			}
			prev = key
		}
		if err := g.AddEdge(prev, compose.END); err != nil {
			return vkit.Failf("build-failed", "%v", err)
		}
		r, err := g.Compile(ctx)
		if err != nil {
			return vkit.Failf("compile-rejected-wellformed-graph", "%v", err)
		}
		rec := &rec10c{cnt: map[string]int{}}
		var opts []compose.Option
		var globals []callbacks.Handler
		for i, h := range c.Handlers {
			hd := h.build(i, rec)
			switch {
			case h.Global:
				globals = append(globals, hd)
			case h.Node >= 0 && h.Node < len(names):
				opts = append(opts, compose.WithCallbacks(hd).DesignateNode(names[h.Node]))
			default:
				opts = append(opts, compose.WithCallbacks(hd))
			}
		}
		callbacks.InitCallbackHandlers(globals)
		defer callbacks.InitCallbackHandlers(nil)
		in := map[string]any{"q": "x"}
		var rerr error
		if c.Paradigm == "stream" {
			var sr *schema.StreamReader[map[string]any]
			sr, rerr = r.Stream(ctx, in, opts...)
			if rerr == nil {
				for {
					_, e := sr.Recv()
					if e != nil {
						if e.Error() != "EOF" {
							rerr = e
						}
						break
					}
				}
				sr.Close()
			}
		} else {
			_, rerr = r.Invoke(ctx, in, opts...)
		}
		if failing < 0 && rerr != nil {
			return vkit.Failf("run-failed", "no unit fails but the run returned: %s", shortErr(rerr))
		}
		if failing >= 0 {
			if rerr == nil {
				return vkit.Failf("failure-swallowed", "unit %s fails but the run returned a value", names[failing])
			}
			if strings.Contains(rerr.Error(), "panic") {
				return vkit.Failf("unit-error-replaced-by-panic", "unit %s (%s) fails with an ordinary error, the run reports a panic: %s", names[failing], c.Nodes[failing].Kind, shortErr(rerr))
			}
			if c.Nodes[failing].Kind != "tpl" && !errors.Is(rerr, errC10c) {
				return vkit.Failf("unit-error-lost", "the run's error does not wrap the failing unit's error: %s", shortErr(rerr))
			}
		}
		for hi, h := range c.Handlers {
			for ui, name := range names {
				applies := h.Node < 0 || h.Node == ui
				executed := failing < 0 || ui <= failing
				failed := ui == failing
				want := map[string]int{"start": 0, "end": 0, "error": 0}
				if applies && executed {
					if h.Start {
						want["start"] = 1
					}
					if h.End && !failed {
						want["end"] = 1
					}
					if h.Err && failed {
						want["error"] = 1
					}
				}
				for _, tm := range []string{"start", "end", "error"} {
					got := rec.cnt[fmt.Sprintf("%d/%s/%s", hi, tm, name)]
					if got != want[tm] {
						return &vkit.Failure{Kind: "callback-count", Sig: "callback-count-components", Msg: fmt.Sprintf("handler %d (start=%v end=%v error=%v, designated=%d, global=%v): its %s function ran %d times for unit %s (%s, executed=%v, failed=%v), want %d",
							hi, h.Start, h.End, h.Err, h.Node, h.Global, tm, got, name, c.Nodes[ui].Kind, executed, failed, want[tm])}
					}
				}
			}
		}
		partial, own := false, false
		for _, h := range c.Handlers {
			if h.Start != h.End || h.End != h.Err {
				partial = true
			}
		}
		if failing >= 0 && c.Nodes[failing].Kind != "plain" {
			own = true
			m.Labels = append(m.Labels, "failing-unit-fires-its-own-callbacks")
		}
		m.NonTrivial = partial && own
		return nil
	})
	return f, m
}

func TestC10Components(t *testing.T) {
	rec := vkit.NewRecorder("C10")
	vkit.Prop(t, rec, genC10c, checkC10c)
}

func TestC10ComponentsReplay(t *testing.T) {
	vkit.Replay(t, "C10", checkC10c)
}
