package compose_test

// C13: node failures surface as identifiable, unwrappable errors; panics are contained.
// Generated: graphs of every kind x fault plans (error / panic in a body, error item or panic
// on an output stream, context cancellation by a body, several failing nodes in one step,
// nesting) x the four paradigms.  Oracle: when the reference model says an injected failure
// executes, the call returns an error (or an error item) from which errors.Is / errors.As recover
// the injected error, whose text names the node path; the step-limit sentinel and context
// cancellation are matchable; the process survives (a dead worker is turned into a violation by
// the driver through the current-case file).

import (
	"context"
	"errors"
	"fmt"
	"regexp"
	"strings"
	"sync/atomic"
	"testing"
	"time"

	"github.com/cloudwego/eino/callbacks"
	"github.com/cloudwego/eino/compose"
	"github.com/cloudwego/eino/internal/gkit"
	"github.com/cloudwego/eino/internal/vkit"
	rapid "github.com/cloudwego/eino/internal/vrapid"
)

type CaseC13 struct {
	Spec     *gkit.Spec `json:"spec"`
	Input    any        `json:"input"`
	Paradigm string     `json:"paradigm"` // invoke | stream | collect | transform
	// Logging: the call carries a callback handler that formats every error it is shown (err.Error()), as a
	// logging handler does - at every nesting level, before the enclosing levels have added their part
	Logging bool `json:"logging,omitempty"`
}

func allLambdas(sp *gkit.Spec, path string, inChain bool, f func(n *gkit.NodeSpec, tag string, nameable bool)) {
	each := func(n *gkit.NodeSpec, chain bool) {
		if n.Kind == "lambda" {
			f(n, path+n.Key, !chain && !inChain)
		} else if n.Kind == "graph" && n.Sub != nil {
			allLambdas(n.Sub, path+n.Key+"/", inChain || chain, f)
		}
	}
	for i := range sp.Nodes {
		each(&sp.Nodes[i], false)
	}
	for si := range sp.Stages {
		for i := range sp.Stages[si].Nodes {
			each(&sp.Stages[si].Nodes[i], true)
		}
	}
}

func genC13(t *rapid.T) CaseC13 {
	cfg := gkit.GenCfg{MaxNodes: 6, Depth: 2, Cycles: true, NoFailMix: true, Paradigms: true, StreamBr: true,
		SubModes: []string{"pregel", "dag", "workflow", "chain"}}
	if vkit.Thorough() {
		cfg.MaxNodes = 8
		cfg.Depth = 3
	}
	mode := []string{"pregel", "pregel", "dag", "workflow", "chain"}[rapid.IntRange(0, 4).Draw(t, "mode")]
	c := CaseC13{Spec: gkit.GenTop(t, mode, cfg)}
	stateFan := rapid.IntRange(0, 5).Draw(t, "stateFan") == 0
	if stateFan {
		// directed: producers of one step working on the graph's state; one may panic inside its ProcessState handler
		c.Spec = gkit.GenStateFan(t, false)
	}
	c.Input = gkit.GenInput(t, c.Spec.In)
	c.Paradigm = []string{"invoke", "invoke", "stream", "collect", "transform"}[rapid.IntRange(0, 4).Draw(t, "paradigm")]
	c.Logging = rapid.IntRange(0, 2).Draw(t, "logging") == 0
	if stateFan {
		return c
	}
	var ls []*gkit.NodeSpec
	allLambdas(c.Spec, "", false, func(n *gkit.NodeSpec, tag string, nameable bool) { ls = append(ls, n) })
	if len(ls) == 0 {
		return c
	}
	plan := rapid.IntRange(0, 9).Draw(t, "plan")
	switch {
	case plan == 0 && c.Spec.Mode == "pregel":
		// a body cancels the context (top level pregel: the loop checks it before the next step)
		var tops []*gkit.NodeSpec
		for i := range c.Spec.Nodes {
			if c.Spec.Nodes[i].Kind == "lambda" {
				tops = append(tops, &c.Spec.Nodes[i])
			}
		}
		if len(tops) > 0 {
			tops[rapid.IntRange(0, len(tops)-1).Draw(t, "cancelNode")].Fault = "cancel"
		}
	case plan == 1:
		// no fault: step limit / plain outcomes
	default:
		k := rapid.IntRange(1, 3).Draw(t, "nFaults")
		for i := 0; i < k; i++ {
			n := ls[rapid.IntRange(0, len(ls)-1).Draw(t, "faultNode")]
			n.Fault = []string{"err", "err", "panic", "panic", "streamerr", "streampanic", "cancelerr"}[rapid.IntRange(0, 6).Draw(t, "faultKind")]
			if rapid.IntRange(0, 3).Draw(t, "faultEOF") == 0 {
				n.FaultEOF = true
			}
		}
	}
	return c
}

var c13Rec *vkit.Recorder

// watched13 runs one case under a watchdog: "a panic ... never hangs the run" - a case that has not returned after
// 40 s (twice checked) is reported with all goroutine stacks.
func watched13(c CaseC13, body func() *vkit.Failure) *vkit.Failure {
	rec := c13Rec
	if rec == nil {
		rec = vkit.NewRecorder("C13")
	}
	return vkit.Watchdog(rec, c, 40*time.Second, nil, func() *vkit.Failure { return vkit.Guard("panic-escaped", body) })
}

func checkC13(c CaseC13) (*vkit.Failure, vkit.Meta) {
	var m vkit.Meta
	if c.Spec == nil {
		return nil, m
	}
	if c13Rec != nil {
		c13Rec.Current(c)
		defer c13Rec.ClearCurrent()
	}
	f := watched13(c, func() *vkit.Failure {
		in := fixInput(c.Spec, c.Input)
		ref := gkit.Ref(c.Spec, "", in, gkit.RefOpts{})
		want := baseClass(ref.Fail)
		m.Labels = append(m.Labels, "mode:"+c.Spec.Mode, "paradigm:"+c.Paradigm, "ref:"+want)
		if ref.Ambiguous || want == "merge" {
			m.Labels = append(m.Labels, "ambiguous-skipped")
			return nil
		}
		faultKinds := map[string]bool{}
		nameable := map[string]bool{}
		depthOf := map[string]int{}
		allLambdas(c.Spec, "", false, func(n *gkit.NodeSpec, tag string, nm bool) {
			if n.Fault != "" {
				faultKinds[tag] = true
				m.Labels = append(m.Labels, "fault:"+n.Fault)
				if n.FaultEOF {
					m.Labels = append(m.Labels, "failure-wraps-io.EOF")
				}
			}
			nameable[tag] = nm
			depthOf[tag] = strings.Count(tag, "/")
		})
		streamCarried := false
		kindOf := map[string]string{}
		allLambdas(c.Spec, "", false, func(n *gkit.NodeSpec, tag string, nm bool) { kindOf[tag] = n.Fault })
		for _, tg := range ref.FaultTags {
			if kindOf[tg] == "streamerr" || kindOf[tg] == "streampanic" {
				streamCarried = true
			}
		}
		deep := false
		for _, tg := range ref.FaultTags {
			if depthOf[tg] >= 1 {
				deep = true
			}
		}
		m.NonTrivial = want == "fault" && (deep || len(ref.FaultTags) >= 2 || streamCarried)
		if c.Paradigm != "invoke" && streamCarried {
			// whether a failing stream is read at all depends on who consumes it; the 4-way agreement on
			// such failures is C04's business (influence analysis there).  Here: the process must survive
			// and the call must return.
			m.Labels = append(m.Labels, "stream-carried-failure:survival-only")
		}
		ctx, cancel := context.WithCancel(context.Background())
		defer cancel()
		r, err := gkit.Compile(ctx, c.Spec, nil)
		if err != nil {
			return vkit.Failf("compile-rejected-wellformed-graph", "Compile failed on a well-typed generated graph: %v", err)
		}
		env := gkit.NewEnv("c13")
		env.MaxRunsPerNode = 400
		env.Cancel = cancel
		cctx := env.With(ctx)
		var out any
		var rerr error
		chunks := gkit.ChunkInput(in, 2)
		var copts []compose.Option
		if c.Logging {
			m.Labels = append(m.Labels, "logging-error-callback")
			var logged int64
			copts = append(copts, compose.WithCallbacks(callbacks.NewHandlerBuilder().OnErrorFn(func(ctx context.Context, info *callbacks.RunInfo, err error) context.Context {
				atomic.AddInt64(&logged, int64(len(err.Error())))
				return ctx
			}).Build()))
		}
		switch c.Paradigm {
		case "invoke":
			out, rerr = r.Invoke(cctx, in, copts...)
		case "stream":
			sr, e := r.Stream(cctx, in, copts...)
			rerr = e
			if e == nil {
				out, _, rerr = gkit.DrainAny(sr)
			}
		case "collect":
			out, rerr = r.Collect(cctx, chunks, copts...)
		case "transform":
			sr, e := r.Transform(cctx, chunks, copts...)
			rerr = e
			if e == nil {
				out, _, rerr = gkit.DrainAny(sr)
			}
		}
		_ = out
		if c.Paradigm != "invoke" && streamCarried {
			return nil
		}
		got := classifyErr(rerr)
		if rerr != nil && errors.Is(rerr, context.Canceled) {
			got = "canceled"
		}
		if ref.CancelSeen && got == "canceled" {
			// once a body has cancelled the context, anything still running (nested graphs of the same
			// step) may observe it
			return nil
		}
		switch want {
		case "fault":
			if rerr == nil {
				return vkit.Failf("failure-swallowed", "the model executes failing node(s) %v but the %s call returned a value", ref.FaultTags, c.Paradigm)
			}
			// which injected failure is reported first is a matter of timing: accept any of them
			matched := false
			var why []string
			for _, tg := range ref.FaultTags {
				if kindOf[tg] == "cancelerr" && got == "canceled" && (eagerOnPath(c.Spec, tg) || nodePathRe.MatchString(rerr.Error())) {
					// (a cancellation error that names a node path comes from a nested graph running in the same step)
					// the failing body cancelled the context first; with eager execution (a workflow on the path) the run
					// loop may notice the cancellation before it collects the failed node: both outcomes are legitimate
					matched = true
					continue
				}
				switch kindOf[tg] {
				case "err", "streamerr", "cancelerr":
					var ie *gkit.InjectedError
					if !errors.Is(rerr, gkit.ErrSentinel) || !errors.As(rerr, &ie) {
						why = append(why, fmt.Sprintf("%s: errors.Is/As do not recover the injected error", tg))
						continue
					}
					if ie.Node != tg {
						why = append(why, fmt.Sprintf("%s: recovered error belongs to %s", tg, ie.Node))
						continue
					}
				case "panic", "streampanic", "pspanic":
					if !strings.Contains(rerr.Error(), "injected panic in") {
						why = append(why, fmt.Sprintf("%s: error does not mention the panic", tg))
						continue
					}
				}
				if nameable[tg] {
					wantPath := "node path: [" + strings.ReplaceAll(tg, "/", ", ") + "]"
					if !strings.Contains(rerr.Error(), wantPath) {
						why = append(why, fmt.Sprintf("%s: error text does not contain %q", tg, wantPath))
						continue
					}
				}
				matched = true
			}
			if !matched {
				sig := "failure-not-identifiable"
				return &vkit.Failure{Kind: sig, Sig: sig, Msg: fmt.Sprintf("%s call failed, but not in the way the statement promises: %s; err=%s", c.Paradigm, strings.Join(why, "; "), shortErr(rerr))}
			}
		case "maxsteps":
			if !errors.Is(rerr, compose.ErrExceedMaxSteps) {
				return vkit.Failf("sentinel-not-matchable", "model says the step limit is exceeded; errors.Is(err, ErrExceedMaxSteps) is false; err=%s", shortErr(rerr))
			}
			if !ref.Ambiguous && !ref.ExecsUncertain {
				// the graph node whose inner graph ran out of steps is the failing node: its path, nothing else
				got := ""
				if mm := nodePathRe.FindStringSubmatch(rerr.Error()); mm != nil {
					got = mm[1]
				}
				want := strings.ReplaceAll(ref.FailPath, "/", ", ")
				// chains generate their node keys: compare only the depth where a chain contains a step of the path
				cur, viaChain := c.Spec, false
				for _, seg := range strings.Split(ref.FailPath, "/") {
					if cur == nil || seg == "" {
						break
					}
					if cur.Mode == "chain" {
						viaChain = true
						break
					}
					if n := cur.Node(seg); n != nil {
						cur = n.Sub
					} else {
						cur = nil
					}
				}
				if viaChain {
					if strings.Count(got, ",") == strings.Count(want, ",") && (got == "") == (want == "") {
						got = want
					}
				}
				for _, alt := range ref.FailPaths {
					// another graph node of the same step ran out of steps too: either may be reported
					if a := strings.ReplaceAll(alt, "/", ", "); a == got && !viaChain {
						want = got
					}
				}
				if got != want {
					return &vkit.Failure{Kind: "step-limit-error-path", Sig: "step-limit-error-path", Msg: fmt.Sprintf("the step limit was exceeded in the graph at path [%s]; the error names node path [%s]; err=%s", want, got, shortErr(rerr))}
				}
				if ref.FailPath != "" {
					m.Labels = append(m.Labels, "nested-step-limit")
				}
			}
		case "canceled":
			if !errors.Is(rerr, context.Canceled) {
				return vkit.Failf("cancellation-not-matchable", "a body cancelled the context before the next step; errors.Is(err, context.Canceled) is false; err=%s", shortErr(rerr))
			}
		default:
			if got != want {
				return vkit.Failf("outcome-class", "run ended with %q, reference model says %q (err=%s)", got, want, shortErr(rerr))
			}
		}
		return nil
	})
	hasStreamPanic := false
	allLambdas(c.Spec, "", false, func(n *gkit.NodeSpec, tag string, nm bool) {
		if n.Fault == "streampanic" {
			hasStreamPanic = true
		}
	})
	if f != nil && f.Kind == "panic-escaped" && c.Paradigm != "invoke" && hasStreamPanic && strings.Contains(f.Msg+fmt.Sprint(f.Detail), "gkit") {
		// the harness' panicking stream was read on the caller's or the run loop's goroutine (final
		// output, branch condition): not one of the three places the statement names
		m.Labels = append(m.Labels, "stream-panic-read-outside-executor")
		return nil, m
	}
	return f, m
}

// eagerOnPath: is the node (or one of the graphs that contain it) part of a workflow, or does a step of a
// containing graph run other nodes besides it?  Only then can the run loop see a cancellation before the failure.
func eagerOnPath(sp *gkit.Spec, tag string) bool {
	cur := sp
	for _, seg := range strings.Split(tag, "/") {
		if cur == nil {
			return true
		}
		if cur.Mode == "workflow" {
			return true
		}
		n := cur.Node(seg)
		if n == nil {
			return true // chain stages and the like: not modelled, be permissive
		}
		cur = n.Sub
	}
	return false
}

var nodePathRe = regexp.MustCompile(`node path: \[([^\]]*)\]`)

func TestC13(t *testing.T) {
	c13Rec = vkit.NewRecorder("C13")
	vkit.Prop(t, c13Rec, genC13, checkC13)
}

func TestC13Replay(t *testing.T) {
	vkit.Replay(t, "C13", checkC13)
}
