package compose_test

// C17: the tools node answers every tool call, in call order, whatever the completion order.
// Generated: 3-5 tools (invokable-only, streamable-only, both; streamable ones emit 1-4 chunks),
// call lists of 1-6 calls with repeated tools, generated ids and unknown names, a completion
// order enforced by gates keyed by the tool call id, failing tools (error at call / error item
// mid-stream / panic), unknown-tool handler present or absent; standalone Invoke / Stream and
// inside a graph under all four paradigms, with a recording callback handler.
// Oracle: answer i = ToolMessage(out(tool_i, args_i), id_i); Invoke equals it; the streamed form
// joined position-wise equals it; a failing tool fails the call and errors.Is finds a failing
// tool's error; a panic inside a graph becomes an error; unknown name = error, or the handler's
// answer in that slot; every tool call is one callback unit carrying the tool's name.

import (
	"encoding/json"
	"runtime"

	"context"
	"errors"
	"fmt"
	toolutils "github.com/cloudwego/eino/components/tool/utils"
	"io"
	"sort"
	"strings"
	"sync"
	"testing"
	"time"

	"github.com/cloudwego/eino/callbacks"
	"github.com/cloudwego/eino/components/tool"
	"github.com/cloudwego/eino/compose"
	"github.com/cloudwego/eino/internal/gkit"
	"github.com/cloudwego/eino/internal/vkit"
	rapid "github.com/cloudwego/eino/internal/vrapid"
	"github.com/cloudwego/eino/schema"
)

type Tool17 struct {
	Name   string `json:"name"`
	Kind   string `json:"kind"` // inv | str | both
	Chunks int    `json:"chunks"`
	Fault  string `json:"fault,omitempty"` // "", err, streamerr, panic
	Empty  bool   `json:"empty,omitempty"` // the tool's whole output is the empty string
	Mark   string `json:"mark,omitempty"`  // prefix of the output (tells tool lists passed per call apart)
	// Ctx: the tool honours its context: once released it gives a cancellation a moment to arrive and returns
	// ctx.Err() if it does.  Nobody in these cases cancels the caller's context, so such a tool behaves like any other.
	Ctx bool `json:"ctx,omitempty"`
	EOF bool `json:"eof,omitempty"` // the tool's failure additionally wraps io.EOF
}

// Args17 is the argument type of tools built with components/tool/utils (kind "utils"): a pointer to it is
// decoded from the call's JSON arguments, both fields optional.
type Args17 struct {
	A string `json:"a,omitempty"`
	B string `json:"b,omitempty"`
}

func (d Tool17) out(args string) string {
	if d.Kind == "utils" {
		var a Args17
		_ = json.Unmarshal([]byte(args), &a)
		b, _ := json.Marshal(d.Name + "[a=" + a.A + ";b=" + a.B + "]")
		return string(b)
	}
	if d.Empty {
		return ""
	}
	return d.Mark + toolOut(d.Name, args)
}

type Call17 struct {
	Tool string `json:"tool"`
	ID   string `json:"id"`
	Args string `json:"args"`
}

type CaseC17 struct {
	Tools   []Tool17 `json:"tools"`
	Calls   []Call17 `json:"calls"`
	Handler bool     `json:"handler"` // unknown-tool handler configured
	// StaleList: the call carries two tool-list options: first a list holding only a tool for the name the calls use
	// as unknown name, then the real list.  The later list replaces the earlier one, so that name stays unknown.
	StaleList bool   `json:"stalelist,omitempty"`
	Where     string `json:"where"`    // standalone | graph
	Paradigm  string `json:"paradigm"` // invoke | stream | collect | transform
	Order     []int  `json:"order"`    // completion order (permutation keys)
}

type toolErr struct {
	tool, id string
	eof      bool // the chain also ends in io.EOF (e.g. a dropped connection): a failure all the same
}

func (e *toolErr) Error() string { return "tool " + e.tool + " failed on call " + e.id }

var errToolSentinel = errors.New("c17 tool failure")

func (e *toolErr) Unwrap() []error {
	if e.eof {
		return []error{errToolSentinel, io.EOF}
	}
	return []error{errToolSentinel}
}

func toolOut(name, args string) string { return name + "[" + args + "]" }

type env17 struct {
	ctl *gkit.Controller
}

type env17Key struct{}

type baseTool17 struct{ d Tool17 }

func (b *baseTool17) Info(ctx context.Context) (*schema.ToolInfo, error) {
	return &schema.ToolInfo{Name: b.d.Name, Desc: "t"}, nil
}

func (b *baseTool17) gate(ctx context.Context) string {
	id := compose.GetToolCallID(ctx)
	if e, ok := ctx.Value(env17Key{}).(*env17); ok && e.ctl != nil {
		e.ctl.Wait(id)
	}
	return id
}

// cancelled (ctx-aware tools only): the context's error if a cancellation arrives within a moment.
func (b *baseTool17) cancelled(ctx context.Context) error {
	if !b.d.Ctx {
		return nil
	}
	select {
	case <-ctx.Done():
		return ctx.Err()
	case <-time.After(time.Millisecond):
		return nil
	}
}

func (b *baseTool17) run(ctx context.Context, args string) (string, error) {
	id := b.gate(ctx)
	if err := b.cancelled(ctx); err != nil {
		return "", err
	}
	switch b.d.Fault {
	case "err":
		return "", fmt.Errorf("wrapped: %w", &toolErr{b.d.Name, id, b.d.EOF})
	case "panic":
		panic("tool " + b.d.Name + " panics on call " + id)
	}
	return b.d.out(args), nil
}

func (b *baseTool17) stream(ctx context.Context, args string) (*schema.StreamReader[string], error) {
	id := b.gate(ctx)
	if err := b.cancelled(ctx); err != nil {
		return nil, err
	}
	switch b.d.Fault {
	case "err":
		return nil, fmt.Errorf("wrapped: %w", &toolErr{b.d.Name, id, b.d.EOF})
	case "panic":
		panic("tool " + b.d.Name + " panics on call " + id)
	}
	parts := gkit.Chunk(b.d.out(args), b.d.Chunks)
	if b.d.Fault == "streamerr" {
		sr, sw := schema.Pipe[string](len(parts) + 1)
		for i, p := range parts {
			if i == len(parts)/2 {
				break
			}
			sw.Send(p, nil)
		}
		sw.Send("", fmt.Errorf("wrapped: %w", &toolErr{b.d.Name, id, b.d.EOF}))
		sw.Close()
		return sr, nil
	}
	return schema.StreamReaderFromArray(parts), nil
}

type invTool17 struct{ baseTool17 }

func (t *invTool17) InvokableRun(ctx context.Context, args string, opts ...tool.Option) (string, error) {
	return t.run(ctx, args)
}

type strTool17 struct{ baseTool17 }

func (t *strTool17) StreamableRun(ctx context.Context, args string, opts ...tool.Option) (*schema.StreamReader[string], error) {
	return t.stream(ctx, args)
}

type bothTool17 struct{ baseTool17 }

func (t *bothTool17) InvokableRun(ctx context.Context, args string, opts ...tool.Option) (string, error) {
	return t.run(ctx, args)
}
func (t *bothTool17) StreamableRun(ctx context.Context, args string, opts ...tool.Option) (*schema.StreamReader[string], error) {
	return t.stream(ctx, args)
}

func mkTool(d Tool17) tool.BaseTool {
	switch d.Kind {
	case "utils":
		return toolutils.NewTool(&schema.ToolInfo{Name: d.Name, Desc: "t"}, func(ctx context.Context, in *Args17) (string, error) {
			id := (&baseTool17{d}).gate(ctx)
			runtime.Gosched()
			if err := (&baseTool17{d}).cancelled(ctx); err != nil {
				return "", err
			}
			switch d.Fault {
			case "err":
				return "", fmt.Errorf("wrapped: %w", &toolErr{d.Name, id, d.EOF})
			case "panic":
				panic("tool " + d.Name + " panics on call " + id)
			}
			return d.Name + "[a=" + in.A + ";b=" + in.B + "]", nil
		})
	case "inv":
		return &invTool17{baseTool17{d}}
	case "str":
		return &strTool17{baseTool17{d}}
	}
	return &bothTool17{baseTool17{d}}
}

func genC17(t *rapid.T) CaseC17 {
	c := CaseC17{}
	nt := rapid.IntRange(3, 5).Draw(t, "nTools")
	for i := 0; i < nt; i++ {
		d := Tool17{Name: fmt.Sprintf("tool%d", i), Kind: []string{"inv", "str", "both", "utils"}[rapid.IntRange(0, 3).Draw(t, "kind")], Chunks: rapid.IntRange(1, 4).Draw(t, "chunks"), Empty: rapid.IntRange(0, 5).Draw(t, "empty") == 0, Ctx: rapid.IntRange(0, 2).Draw(t, "ctxAware") == 0}
		if rapid.IntRange(0, 7).Draw(t, "fault") == 0 {
			d.Fault = []string{"err", "err", "streamerr", "panic"}[rapid.IntRange(0, 3).Draw(t, "faultKind")]
			d.EOF = rapid.IntRange(0, 2).Draw(t, "faultEOF") == 0
		}
		c.Tools = append(c.Tools, d)
	}
	nc := rapid.IntRange(1, 6).Draw(t, "nCalls")
	for i := 0; i < nc; i++ {
		name := c.Tools[rapid.IntRange(0, nt-1).Draw(t, "tool")].Name
		if rapid.IntRange(0, 9).Draw(t, "unknown") == 0 {
			name = "nosuchtool"
		}
		cl := Call17{Tool: name, ID: fmt.Sprintf("c%d", i), Args: rapid.StringMatching("[a-c]{0,3}").Draw(t, "args")}
		for _, d := range c.Tools {
			if d.Name == name && d.Kind == "utils" {
				cl.Args = []string{`{}`, `{"a":"x"}`, `{"b":"y"}`, `{"a":"p","b":"q"}`, `{"a":"z"}`}[rapid.IntRange(0, 4).Draw(t, "jsonArgs")]
			}
		}
		c.Calls = append(c.Calls, cl)
	}
	c.Handler = rapid.Bool().Draw(t, "handler")
	c.StaleList = rapid.IntRange(0, 3).Draw(t, "staleList") == 0
	c.Where = []string{"standalone", "graph", "graph"}[rapid.IntRange(0, 2).Draw(t, "where")]
	if c.Where == "graph" {
		c.Paradigm = []string{"invoke", "stream", "collect", "transform"}[rapid.IntRange(0, 3).Draw(t, "paradigm")]
	} else {
		c.Paradigm = []string{"invoke", "stream"}[rapid.IntRange(0, 1).Draw(t, "paradigm")]
	}
	for i := 0; i < nc; i++ {
		c.Order = append(c.Order, rapid.IntRange(0, 1000).Draw(t, "ord"))
	}
	return c
}

// joinSparse concatenates the chunks of a streamed tools-node output position-wise.
func joinSparse(chunks [][]*schema.Message) ([]*schema.Message, error) {
	if len(chunks) == 0 {
		return nil, errors.New("empty stream")
	}
	n := len(chunks[0])
	out := make([]*schema.Message, n)
	for _, ch := range chunks {
		if len(ch) != n {
			return nil, fmt.Errorf("chunk lengths differ: %d vs %d", len(ch), n)
		}
		for i, m := range ch {
			if m == nil {
				continue
			}
			if out[i] == nil {
				cp := *m
				out[i] = &cp
				continue
			}
			if out[i].ToolCallID != m.ToolCallID || out[i].Role != m.Role {
				return nil, fmt.Errorf("slot %d mixes call ids %q / %q", i, out[i].ToolCallID, m.ToolCallID)
			}
			out[i].Content += m.Content
		}
	}
	return out, nil
}

type cb17 struct {
	mu     sync.Mutex
	starts map[string]int
	ends   map[string]int
}

func (h *cb17) handler() callbacks.Handler {
	cnt := func(m map[string]int, info *callbacks.RunInfo) {
		if info == nil || !strings.HasPrefix(info.Name, "tool") && info.Name != "nosuchtool" {
			return
		}
		h.mu.Lock()
		m[info.Name]++
		h.mu.Unlock()
	}
	return callbacks.NewHandlerBuilder().
		OnStartFn(func(ctx context.Context, info *callbacks.RunInfo, in callbacks.CallbackInput) context.Context {
			cnt(h.starts, info)
			return ctx
		}).
		OnEndFn(func(ctx context.Context, info *callbacks.RunInfo, out callbacks.CallbackOutput) context.Context {
			cnt(h.ends, info)
			return ctx
		}).
		OnEndWithStreamOutputFn(func(ctx context.Context, info *callbacks.RunInfo, out *schema.StreamReader[callbacks.CallbackOutput]) context.Context {
			out.Close()
			cnt(h.ends, info)
			return ctx
		}).
		OnErrorFn(func(ctx context.Context, info *callbacks.RunInfo, err error) context.Context {
			cnt(h.ends, info)
			return ctx
		}).Build()
}

var c17Rec *vkit.Recorder

func checkC17(c CaseC17) (*vkit.Failure, vkit.Meta) {
	var m vkit.Meta
	if len(c.Tools) == 0 || len(c.Calls) == 0 || len(c.Order) < len(c.Calls) {
		return nil, m
	}
	if c17Rec != nil {
		c17Rec.Current(c)
		defer c17Rec.ClearCurrent()
	}
	body := func() *vkit.Failure {
		return vkit.Guard("panic-escaped", func() *vkit.Failure {
			ctx := context.Background()
			tools := make([]tool.BaseTool, len(c.Tools))
			byName := map[string]Tool17{}
			for i, d := range c.Tools {
				tools[i] = mkTool(d)
				byName[d.Name] = d
			}
			conf := &compose.ToolsNodeConfig{Tools: tools}
			e := &env17{ctl: gkit.NewController()}
			if c.Handler {
				conf.UnknownToolsHandler = func(ctx context.Context, name, input string) (string, error) {
					if id := compose.GetToolCallID(ctx); id != "" {
						e.ctl.Wait(id)
					}
					return "unknown(" + name + "," + input + ")", nil
				}
			}
			var listOpts []compose.ToolsNodeOption
			if c.StaleList {
				m.Labels = append(m.Labels, "two-tool-list-options")
				real := make([]tool.BaseTool, len(c.Tools))
				for i, d := range c.Tools {
					real[i] = mkTool(d)
				}
				listOpts = []compose.ToolsNodeOption{compose.WithToolList(mkTool(Tool17{Name: "nosuchtool", Kind: "both", Chunks: 1, Mark: "STALE:"})), compose.WithToolList(real...)}
			}
			tn, err := compose.NewToolNode(ctx, conf)
			if err != nil {
				return vkit.Failf("harness", "NewToolNode: %v", err)
			}
			msg := &schema.Message{Role: schema.Assistant}
			for _, cl := range c.Calls {
				msg.ToolCalls = append(msg.ToolCalls, schema.ToolCall{ID: cl.ID, Type: "function", Function: schema.FunctionCall{Name: cl.Tool, Arguments: cl.Args}})
			}
			// expectation
			wantErr := ""
			var failing []Call17
			panics := false
			var want []*schema.Message
			repeated, kinds := false, map[string]bool{}
			seenTool := map[string]bool{}
			streamMode := c.Paradigm != "invoke"
			for _, cl := range c.Calls {
				d, known := byName[cl.Tool]
				if seenTool[cl.Tool] {
					repeated = true
				}
				seenTool[cl.Tool] = true
				if !known {
					if !c.Handler {
						wantErr = "unknown"
					}
					want = append(want, schema.ToolMessage("unknown("+cl.Tool+","+cl.Args+")", cl.ID))
					continue
				}
				kinds[d.Kind] = true
				switch d.Fault {
				case "err":
					failing = append(failing, cl)
				case "panic":
					panics = true
				case "streamerr":
					// only the streamable form of the tool fails (the invokable form of a "both" tool is clean)
					usesStream := d.Kind == "str" || (d.Kind == "both" && streamMode)
					if usesStream {
						failing = append(failing, cl)
					}
				}
				want = append(want, schema.ToolMessage(d.out(cl.Args), cl.ID))
			}
			ectx := context.WithValue(ctx, env17Key{}, e)
			rec := &cb17{starts: map[string]int{}, ends: map[string]int{}}
			// a handler registered globally must see every tool call too (one process runs one case at a time)
			grec := &cb17{starts: map[string]int{}, ends: map[string]int{}}
			callbacks.InitCallbackHandlers([]callbacks.Handler{grec.handler()})
			defer callbacks.InitCallbackHandlers(nil)
			done := make(chan struct{})
			var got []*schema.Message
			var rerr error
			go func() {
				defer close(done)
				defer func() {
					if p := recover(); p != nil {
						rerr = fmt.Errorf("panic: %v", p)
					}
				}()
				drain := func(sr *schema.StreamReader[[]*schema.Message]) {
					defer sr.Close()
					var chunks [][]*schema.Message
					for {
						ch, err := sr.Recv()
						if err == io.EOF {
							break
						}
						if err != nil {
							rerr = err
							return
						}
						chunks = append(chunks, ch)
					}
					got, rerr = joinSparse(chunks)
				}
				if c.Where == "standalone" {
					if c.Paradigm == "invoke" {
						got, rerr = tn.Invoke(ectx, msg, listOpts...)
					} else {
						sr, err := tn.Stream(ectx, msg, listOpts...)
						if err != nil {
							rerr = err
							return
						}
						drain(sr)
					}
					return
				}
				g := compose.NewGraph[*schema.Message, []*schema.Message]()
				_ = g.AddToolsNode("tools", tn)
				_ = g.AddEdge(compose.START, "tools")
				_ = g.AddEdge("tools", compose.END)
				r, err := g.Compile(ctx)
				if err != nil {
					rerr = fmt.Errorf("compile: %w", err)
					return
				}
				opt := compose.WithCallbacks(rec.handler())
				lopt := compose.WithToolsNodeOption(listOpts...)
				switch c.Paradigm {
				case "invoke":
					got, rerr = r.Invoke(ectx, msg, opt, lopt)
				case "stream":
					sr, err := r.Stream(ectx, msg, opt, lopt)
					if err != nil {
						rerr = err
						return
					}
					drain(sr)
				case "collect":
					got, rerr = r.Collect(ectx, schema.StreamReaderFromArray([]*schema.Message{msg}), opt, lopt)
				case "transform":
					sr, err := r.Transform(ectx, schema.StreamReaderFromArray([]*schema.Message{msg}), opt, lopt)
					if err != nil {
						rerr = err
						return
					}
					drain(sr)
				}
			}()
			// release the calls in the generated completion order once all of them are waiting
			order := make([]int, len(c.Calls))
			for i := range order {
				order[i] = i
			}
			sort.SliceStable(order, func(a, b int) bool { return c.Order[order[a]] < c.Order[order[b]] })
			expectWaiting := len(c.Calls)
			if wantErr == "unknown" {
				expectWaiting = 0 // rejected before any tool starts
			}
			outOfOrder := false
			for i, oi := range order {
				if oi != i {
					outOfOrder = true
				}
			}
			if expectWaiting > 0 {
				e.ctl.AwaitWaiting(expectWaiting, done)
			}
			for _, oi := range order {
				e.ctl.Release(c.Calls[oi].ID)
				time.Sleep(20 * time.Microsecond)
			}
			select {
			case <-done:
			case <-time.After(20 * time.Second):
				e.ctl.ReleaseAll()
				<-done
			}
			e.ctl.ReleaseAll()
			m.Labels = append(m.Labels, "where:"+c.Where, "paradigm:"+c.Paradigm)
			m.NonTrivial = len(c.Calls) >= 3 && repeated && outOfOrder && len(kinds) >= 2
			if rerr != nil && strings.HasPrefix(rerr.Error(), "panic:") {
				if c.Where == "standalone" && panics {
					m.Labels = append(m.Labels, "standalone-tool-panic-escapes(not asserted)")
					return nil
				}
				return vkit.Failf("panic-escaped", "%s %s panicked: %v", c.Where, c.Paradigm, rerr)
			}
			switch {
			case wantErr == "unknown":
				m.Labels = append(m.Labels, "unknown-tool-without-handler")
				if rerr == nil {
					return vkit.Failf("unknown-tool-accepted", "an unknown tool name without handler did not fail the call (got %d messages)", len(got))
				}
				return nil
			case panics:
				m.Labels = append(m.Labels, "panicking-tool")
				if rerr == nil {
					return vkit.Failf("tool-panic-swallowed", "a tool panicked but the call returned %d messages", len(got))
				}
				return nil
			case len(failing) > 0:
				m.Labels = append(m.Labels, "failing-tool")
				if rerr == nil {
					return vkit.Failf("tool-failure-swallowed", "tools fail on calls %v but the call returned %d messages", failing, len(got))
				}
				var te *toolErr
				if !errors.Is(rerr, errToolSentinel) || !errors.As(rerr, &te) {
					return vkit.Failf("tool-error-not-recoverable", "errors.Is/As do not recover the failing tool's error from: %s", shortErr(rerr))
				}
				ok := false
				for _, fc := range failing {
					if te.id == fc.ID && te.tool == fc.Tool {
						ok = true
					}
				}
				if !ok {
					return vkit.Failf("tool-error-not-recoverable", "recovered error belongs to tool %s call %s, failing calls are %v", te.tool, te.id, failing)
				}
				return nil
			}
			if rerr != nil {
				return vkit.Failf("tools-node-failed", "all tools succeed but the call failed: %s", shortErr(rerr))
			}
			if len(got) != len(want) {
				return vkit.Failf("answer-count", "%d tool calls, %d tool messages", len(want), len(got))
			}
			for i := range want {
				if got[i] == nil {
					return vkit.Failf("answer-missing", "slot %d (call %s) has no message", i, c.Calls[i].ID)
				}
				if got[i].Role != schema.Tool || got[i].ToolCallID != want[i].ToolCallID || got[i].Content != want[i].Content {
					return &vkit.Failure{Kind: "answer-order", Sig: "answer-order", Msg: fmt.Sprintf("slot %d: got {id=%q content=%q role=%q}, call %d is {id=%q tool=%s args=%q} and should be answered with %q", i, got[i].ToolCallID, got[i].Content, got[i].Role, i, c.Calls[i].ID, c.Calls[i].Tool, c.Calls[i].Args, want[i].Content)}
				}
			}
			if c.Where == "graph" {
				wantCnt := map[string]int{}
				for _, cl := range c.Calls {
					if _, known := byName[cl.Tool]; known { // the unknown-tool handler is not a tool component
						wantCnt[cl.Tool]++
					}
				}
				for which, rc := range map[string]*cb17{"passed with the call": rec, "registered globally": grec} {
					rc.mu.Lock()
					for name, n := range wantCnt {
						if rc.starts[name] != n || rc.ends[name] != n {
							rc.mu.Unlock()
							return &vkit.Failure{Kind: "tool-call-callbacks", Sig: "tool-call-callbacks", Msg: fmt.Sprintf("tool %s was called %d times; the handler %s saw %d starts and %d ends carrying its name", name, n, which, rc.starts[name], rc.ends[name])}
						}
					}
					rc.mu.Unlock()
				}
			}
			return nil
		})
	}
	if c17Rec != nil {
		return vkit.Watchdog(c17Rec, c, 60*time.Second, nil, body), m
	}
	return body(), m
}

func TestC17(t *testing.T) {
	c17Rec = vkit.NewRecorder("C17")
	vkit.Prop(t, c17Rec, genC17, checkC17)
}

func TestC17Replay(t *testing.T) {
	c17Rec = vkit.NewRecorder("C17")
	vkit.Replay(t, "C17", checkC17)
}

// ---- C13 (tool calls): a panic inside a tool call surfaces as an error of the run ---------------

// genC13Tools biases the C17 generator towards what C13 says about tools: exactly one panicking tool,
// at least two calls, the panicking tool called but not first, released last (so the node is already
// waiting for its goroutines when the panic is recovered).
func genC13Tools(t *rapid.T) CaseC17 {
	c := genC17(t)
	for i := range c.Tools {
		c.Tools[i].Fault = ""
	}
	if rapid.IntRange(0, 2).Draw(t, "severalFail") == 0 {
		// no panic: two or more calls fail with ordinary errors when they are started - the node's error is still one of theirs
		k := rapid.IntRange(2, len(c.Tools)).Draw(t, "nFailTools")
		for i := 0; i < k; i++ {
			c.Tools[i].Fault = "err"
			c.Tools[i].EOF = false
		}
		for len(c.Calls) < 3 {
			c.Calls = append(c.Calls, Call17{Tool: c.Tools[0].Name, ID: fmt.Sprintf("x%d", len(c.Calls)), Args: "a"})
		}
		for i := range c.Calls {
			if c.Calls[i].Tool == "nosuchtool" {
				c.Calls[i].Tool = c.Tools[len(c.Tools)-1].Name
			}
		}
		c.Calls[0].Tool, c.Calls[len(c.Calls)-1].Tool = c.Tools[0].Name, c.Tools[1].Name
		for i := range c.Calls {
			for _, d := range c.Tools {
				if d.Name == c.Calls[i].Tool && d.Kind == "utils" && !strings.HasPrefix(c.Calls[i].Args, "{") {
					c.Calls[i].Args = `{"a":"x"}`
				}
			}
		}
		c.Order = nil
		for range c.Calls {
			c.Order = append(c.Order, rapid.IntRange(0, 500).Draw(t, "ord"))
		}
		return c
	}
	pi := rapid.IntRange(0, len(c.Tools)-1).Draw(t, "panicTool")
	c.Tools[pi].Fault = "panic"
	for len(c.Calls) < 2 {
		c.Calls = append(c.Calls, Call17{Tool: c.Tools[0].Name, ID: fmt.Sprintf("x%d", len(c.Calls)), Args: "a"})
	}
	for i := range c.Calls {
		if c.Calls[i].Tool == "nosuchtool" || c.Calls[i].Tool == c.Tools[pi].Name {
			c.Calls[i].Tool = c.Tools[(pi+1)%len(c.Tools)].Name
		}
	}
	at := rapid.IntRange(1, len(c.Calls)-1).Draw(t, "panicAt")
	c.Calls[at].Tool = c.Tools[pi].Name
	// tools built with tool/utils take JSON arguments (anything else fails before the tool body is entered)
	kindOf := map[string]string{}
	for _, d := range c.Tools {
		kindOf[d.Name] = d.Kind
	}
	for i := range c.Calls {
		if kindOf[c.Calls[i].Tool] == "utils" && !strings.HasPrefix(c.Calls[i].Args, "{") {
			c.Calls[i].Args = `{"a":"x"}`
		}
	}
	c.Order = nil
	for i := range c.Calls {
		o := rapid.IntRange(0, 500).Draw(t, "ord")
		if i == at && rapid.IntRange(0, 3).Draw(t, "panicLast") > 0 {
			o = 1000 // released last
		}
		c.Order = append(c.Order, o)
	}
	return c
}

func TestC13Tools(t *testing.T) {
	c17Rec = vkit.NewRecorder("C13")
	vkit.Prop(t, c17Rec, genC13Tools, checkC17)
}

func TestC13ToolsReplay(t *testing.T) {
	c17Rec = vkit.NewRecorder("C13")
	vkit.Replay(t, "C13", func(c CaseC17) (*vkit.Failure, vkit.Meta) {
		if len(c.Tools) == 0 {
			return nil, vkit.Meta{}
		}
		return checkC17(c)
	})
}

// ---- C10 (tool calls as execution units): handlers passed with the call and handlers registered globally
// see every tool call exactly once at its start and once at its end ---------------------------------

func genC10Tools(t *rapid.T) CaseC17 {
	c := genC17(t)
	c.Where = "graph"
	if c.Paradigm == "" {
		c.Paradigm = "invoke"
	}
	for i := range c.Tools {
		c.Tools[i].Fault = ""
	}
	return c
}

func TestC10Tools(t *testing.T) {
	c17Rec = vkit.NewRecorder("C10")
	vkit.Prop(t, c17Rec, genC10Tools, checkC17)
}

func TestC10ToolsReplay(t *testing.T) {
	c17Rec = vkit.NewRecorder("C10")
	vkit.Replay(t, "C10", func(c CaseC17) (*vkit.Failure, vkit.Meta) {
		if len(c.Tools) == 0 {
			return nil, vkit.Meta{}
		}
		return checkC17(c)
	})
}
