package compose_test

// C15: Workflow field mappings move exactly the mapped values; overlapping targets are rejected
// at compile time regardless of declaration order; mappings only checkable at run time give an
// error, never a panic.
//
// Generated: source types (struct, *struct, map[string]any) with nested struct / pointer / map /
// interface fields, target types (struct, *struct, map[string]any) with nested struct, pointer,
// map-of-struct, map-of-pointer and `any` holes; 1-5 mappings from path tables (depth <= 3) spread
// over two predecessors (START and a lambda), declared in a generated order and in permuted
// orders; a mutated class with overlaps, type mismatches, unknown / unexported fields; source
// values incl. interface positions holding every dynamic type and nil; Invoke and Stream.
// Oracle: an independent path get/set reference on reflect values.  Accepted and overlap-free:
// the successor's input equals the reference (everything else zero), on repeated runs and in
// Stream as in Invoke, predecessors' outputs unchanged; where the reference cannot evaluate a
// mapping at run time (missing key, nil on the way, non-assignable dynamic type) the run must
// return an error.  Overlapping target sets must be rejected by Compile in every order tried.
// A panic escaping Compile / Invoke / Stream is always a violation.

import (
	"context"
	"fmt"
	"io"
	"reflect"
	"sort"
	"strings"
	"testing"

	"github.com/cloudwego/eino/compose"
	"github.com/cloudwego/eino/internal/vkit"
	rapid "github.com/cloudwego/eino/internal/vrapid"
	"github.com/cloudwego/eino/schema"
)

type SInner struct {
	S string
	N int
}

type Src1 struct {
	A      string
	B      int
	In     SInner
	PIn    *SInner
	M      map[string]any
	MS     map[string]string
	Any    any
	L      []string
	hidden int
}

type TInner struct {
	S   string
	N   int
	Any any
}

type Dst1 struct {
	X      string
	Y      int
	In     TInner
	PIn    *TInner
	M      map[string]any
	MS     map[string]string
	Hole   any
	L      []string
	MI     map[string]TInner
	MP     map[string]*TInner
	secret string
}

// In stream mode every predecessor contributes its own chunk of the successor's input; for struct
// typed successors the user has to say how such chunks combine (as the framework documents for
// custom chunk types): field-wise, non-zero wins, maps are united.
func mergeValue(dst, src reflect.Value) {
	switch dst.Kind() {
	case reflect.Struct:
		for i := 0; i < dst.NumField(); i++ {
			if dst.Type().Field(i).PkgPath == "" {
				mergeValue(dst.Field(i), src.Field(i))
			}
		}
	case reflect.Map:
		if src.IsNil() {
			return
		}
		if dst.IsNil() {
			dst.Set(reflect.MakeMap(dst.Type()))
		}
		it := src.MapRange()
		for it.Next() {
			old := dst.MapIndex(it.Key())
			if old.IsValid() && (old.Kind() == reflect.Struct || (old.Kind() == reflect.Interface && !old.IsNil() && old.Elem().Kind() == reflect.Map)) {
				if old.Kind() == reflect.Struct {
					tmp := reflect.New(old.Type()).Elem()
					tmp.Set(old)
					mergeValue(tmp, it.Value())
					dst.SetMapIndex(it.Key(), tmp)
					continue
				}
				om, ok1 := old.Interface().(map[string]any)
				nm, ok2 := it.Value().Interface().(map[string]any)
				if ok1 && ok2 {
					cp := make(map[string]any, len(om))
					for k, v := range om {
						cp[k] = v
					}
					tmp := reflect.ValueOf(&cp).Elem()
					mergeValue(tmp, reflect.ValueOf(nm))
					dst.SetMapIndex(it.Key(), reflect.ValueOf(cp))
					continue
				}
			}
			dst.SetMapIndex(it.Key(), it.Value())
		}
	case reflect.Ptr:
		if src.IsNil() {
			return
		}
		if dst.IsNil() {
			dst.Set(src)
			return
		}
		mergeValue(dst.Elem(), src.Elem())
	case reflect.Interface:
		if src.IsNil() {
			return
		}
		// never write into a map that belongs to a chunk (it may alias the predecessor's output)
		if nm, ok := src.Interface().(map[string]any); ok {
			merged := map[string]any{}
			if !dst.IsNil() {
				if om, ok := dst.Interface().(map[string]any); ok {
					for k, v := range om {
						merged[k] = v
					}
				}
			}
			tmp := reflect.ValueOf(&merged).Elem()
			mergeValue(tmp, reflect.ValueOf(nm))
			dst.Set(reflect.ValueOf(merged))
			return
		}
		dst.Set(src)
	default:
		if !src.IsZero() {
			dst.Set(src)
		}
	}
}

func init() {
	compose.RegisterStreamChunkConcatFunc(func(cs []Dst1) (Dst1, error) {
		var out Dst1
		for i := range cs {
			mergeValue(reflect.ValueOf(&out).Elem(), reflect.ValueOf(cs[i]))
		}
		return out, nil
	})
	compose.RegisterStreamChunkConcatFunc(func(cs []*Dst1) (*Dst1, error) {
		out := &Dst1{}
		for i := range cs {
			if cs[i] != nil {
				mergeValue(reflect.ValueOf(out).Elem(), reflect.ValueOf(*cs[i]))
			}
		}
		return out, nil
	})
}

// SrcDesc is the replayable description of a source value.
type SrcDesc struct {
	A      string            `json:"a"`
	B      int               `json:"b"`
	InS    string            `json:"ins"`
	InN    int               `json:"inn"`
	PInNil bool              `json:"pinnil"`
	PInS   string            `json:"pins"`
	MK     string            `json:"mk"`   // M["k"] kind: absent | s | i | inner | map
	MNil   bool              `json:"mnil"` // M is a nil map
	MS     map[string]string `json:"ms"`
	Any    string            `json:"any"` // nil | s | i | inner | pinner | nilpinner | map
	L      []string          `json:"l"`
}

func (d SrcDesc) build() Src1 {
	s := Src1{A: d.A, B: d.B, In: SInner{S: d.InS, N: d.InN}, MS: d.MS, L: d.L}
	if !d.PInNil {
		s.PIn = &SInner{S: d.PInS, N: 9}
	}
	if !d.MNil {
		s.M = map[string]any{"j": "jv", "": "emptykey"} // the empty string is a map key like any other
		switch d.MK {
		case "s":
			s.M["k"] = "kv"
		case "i":
			s.M["k"] = 42
		case "inner":
			s.M["k"] = SInner{S: "mi", N: 3}
		case "map":
			s.M["k"] = map[string]any{"j": "deep", "S": "viaMap"}
		}
	}
	switch d.Any {
	case "s":
		s.Any = "anys"
	case "i":
		s.Any = 77
	case "inner":
		s.Any = SInner{S: "ai", N: 5}
	case "pinner":
		s.Any = &SInner{S: "ap", N: 6}
	case "nilpinner":
		s.Any = (*SInner)(nil)
	case "map":
		s.Any = map[string]any{"k": "amk", "S": "amS"}
	}
	return s
}

func (d SrcDesc) buildMap() map[string]any {
	s := d.build()
	m := map[string]any{"A": s.A, "B": s.B, "In": s.In, "M": s.M, "Any": s.Any, "nest": map[string]any{"j": "nj", "k": map[string]any{"j": "nkj"}, "": map[string]any{"j": "nej"}}}
	if s.PIn != nil {
		m["PIn"] = s.PIn
	}
	return m
}

type Map15 struct {
	Pred string   `json:"pred"` // start | p1
	From []string `json:"from"` // nil = whole
	To   []string `json:"to"`   // nil = whole
}

type CaseC15 struct {
	SrcT  string  `json:"srct"` // struct | ptr | map
	DstT  string  `json:"dstt"` // struct | ptr | map
	Src   SrcDesc `json:"src"`
	Maps  []Map15 `json:"maps"`
	Split bool    `json:"split"` // put every mapping into its own AddInput call where the API allows
	// NDStart / NDP1 (grouped mode): the mappings from that predecessor are declared with
	// AddInputWithOptions(..., WithNoDirectDependency()) plus a separate AddDependency
	NDStart bool `json:"ndstart,omitempty"`
	NDP1    bool `json:"ndp1,omitempty"`
	// SuccOK: the successor node is added with WithOutputKey (END then takes that key); its input is assembled by
	// the same field mappings
	SuccOK bool `json:"succok,omitempty"`
}

var fromStruct = [][]string{nil, {"A"}, {"B"}, {"In"}, {"In", "S"}, {"In", "N"}, {"PIn"}, {"PIn", "S"}, {"M"}, {"M", "k"}, {"M", "j"}, {"M", "k", "j"}, {"M", "k", "S"}, {"MS"}, {"MS", "k"}, {"Any"}, {"Any", "S"}, {"Any", "k"}, {"L"}, {"Zz"}, {"hidden"}, {"M", ""}}
var fromMap = [][]string{nil, {"A"}, {"B"}, {"In"}, {"In", "S"}, {"PIn", "S"}, {"M"}, {"M", "k"}, {"Any"}, {"Any", "S"}, {"nest"}, {"nest", "j"}, {"nest", "k", "j"}, {"zz"}, {"nest", ""}, {"nest", "", "j"}, {"M", ""}}
var toStruct = [][]string{nil, {"X"}, {"Y"}, {"In"}, {"In", "S"}, {"In", "N"}, {"In", "Any"}, {"In", "Any", "k"}, {"PIn"}, {"PIn", "S"}, {"M"}, {"M", "k"}, {"M", "k", "j"}, {"MS"}, {"MS", "k"}, {"Hole"}, {"Hole", "k"}, {"Hole", "k", "j"}, {"Hole", "k", "i"}, {"Hole", "h", "j"}, {"In", "Any", "k", "j"}, {"In", "Any", "h", "j"}, {"L"}, {"MI", "k"}, {"MI", "k", "S"}, {"MP", "k"}, {"MP", "k", "S"}, {"Qq"}, {"secret"}, {"M", ""}, {"MS", ""}, {"Hole", "", "j"}, {"M", "", "j"}}
var toMap = [][]string{nil, {"x"}, {"x", "y"}, {"x", "y", "z"}, {"x", "q", "z"}, {"x", "y", "r"}, {"w"}, {"v", "u"}, {"x", ""}, {"", "y"}, {"x", "", "z"}}

// siblings: pairs of target paths that pass through the same interface-typed position and go on for at least
// two more elements without overlapping (two mappings must then build one shared map between them)
var siblingsStruct = [][2][]string{{{"Hole", "k", "j"}, {"Hole", "h", "j"}}, {{"Hole", "k", "j"}, {"Hole", "k", "i"}}, {{"In", "Any", "k", "j"}, {"In", "Any", "h", "j"}}}
var siblingsMap = [][2][]string{{{"x", "y", "z"}, {"x", "q", "z"}}, {{"x", "y", "z"}, {"x", "y", "r"}}}

func genC15(t *rapid.T) CaseC15 {
	c := CaseC15{}
	c.SrcT = []string{"struct", "struct", "ptr", "map"}[rapid.IntRange(0, 3).Draw(t, "srcT")]
	c.DstT = []string{"struct", "struct", "ptr", "map"}[rapid.IntRange(0, 3).Draw(t, "dstT")]
	s := func(l string) string { return rapid.StringMatching("[a-c]{0,3}").Draw(t, l) }
	c.Src = SrcDesc{A: s("A"), B: rapid.IntRange(-2, 9).Draw(t, "B"), InS: s("InS"), InN: rapid.IntRange(0, 5).Draw(t, "InN"),
		PInNil: rapid.IntRange(0, 4).Draw(t, "pinNil") == 0, PInS: s("PInS"),
		MK:   []string{"absent", "s", "s", "i", "inner", "map"}[rapid.IntRange(0, 5).Draw(t, "mk")],
		MNil: rapid.IntRange(0, 7).Draw(t, "mnil") == 0,
		Any:  []string{"nil", "s", "s", "i", "inner", "pinner", "nilpinner", "map", "map"}[rapid.IntRange(0, 8).Draw(t, "any")]}
	if rapid.Bool().Draw(t, "hasMS") {
		c.Src.MS = map[string]string{"k": s("msk")}
	}
	if rapid.Bool().Draw(t, "hasL") {
		c.Src.L = []string{s("l0")}
	}
	froms, tos := fromStruct, toStruct
	if c.SrcT == "map" {
		froms = fromMap
	}
	if c.DstT == "map" {
		tos = toMap
	}
	n := rapid.IntRange(1, 5).Draw(t, "nMaps")
	for i := 0; i < n; i++ {
		m := Map15{Pred: "start"}
		if rapid.IntRange(0, 3).Draw(t, "pred") == 0 {
			m.Pred = "p1"
		}
		fs := froms
		if m.Pred == "p1" {
			fs = fromMap // p1 always outputs the map form of the source
		}
		m.From = fs[rapid.IntRange(0, len(fs)-1).Draw(t, "from")]
		m.To = tos[rapid.IntRange(0, len(tos)-1).Draw(t, "to")]
		if m.From == nil && m.To == nil {
			m.To = tos[1]
		}
		c.Maps = append(c.Maps, m)
	}
	if rapid.IntRange(0, 5).Draw(t, "siblings") == 0 {
		sib := siblingsStruct
		if c.DstT == "map" {
			sib = siblingsMap
		}
		pair := sib[rapid.IntRange(0, len(sib)-1).Draw(t, "sibPair")]
		fs := froms
		leaf := func(l string) []string {
			// a string-valued source
			cands := [][]string{{"A"}, {"In", "S"}}
			_ = fs
			return cands[rapid.IntRange(0, len(cands)-1).Draw(t, l)]
		}
		c.Maps = []Map15{{Pred: "start", From: leaf("sibFrom1"), To: pair[0]}, {Pred: "start", From: leaf("sibFrom2"), To: pair[1]}}
	}
	c.Split = rapid.Bool().Draw(t, "split")
	c.NDStart = rapid.IntRange(0, 2).Draw(t, "ndStart") == 0
	c.NDP1 = rapid.IntRange(0, 2).Draw(t, "ndP1") == 0
	c.SuccOK = rapid.IntRange(0, 3).Draw(t, "succOutputKey") == 0
	return c
}

// ---- reference get / set -----------------------------------------------------------------

func refGet(v any, path []string) (any, error) {
	cur := reflect.ValueOf(v)
	for _, seg := range path {
		for cur.IsValid() && (cur.Kind() == reflect.Interface || cur.Kind() == reflect.Ptr) {
			if cur.IsNil() {
				return nil, fmt.Errorf("nil on the way to %q", seg)
			}
			cur = cur.Elem()
		}
		if !cur.IsValid() {
			return nil, fmt.Errorf("nil on the way to %q", seg)
		}
		switch cur.Kind() {
		case reflect.Struct:
			f, ok := cur.Type().FieldByName(seg)
			if !ok || f.PkgPath != "" {
				return nil, fmt.Errorf("no exported field %q", seg)
			}
			cur = cur.FieldByName(seg)
		case reflect.Map:
			if cur.Type().Key().Kind() != reflect.String {
				return nil, fmt.Errorf("map key type")
			}
			e := cur.MapIndex(reflect.ValueOf(seg))
			if !e.IsValid() {
				return nil, fmt.Errorf("key %q not found", seg)
			}
			cur = e
		default:
			return nil, fmt.Errorf("cannot step into %v with %q", cur.Type(), seg)
		}
	}
	if !cur.IsValid() {
		return nil, nil
	}
	return cur.Interface(), nil
}

var anyT = reflect.TypeOf((*any)(nil)).Elem()

// refSet assigns val at path inside dst (an addressable value).
func refSet(dst reflect.Value, path []string, val any) error {
	if len(path) == 0 {
		return assignLeaf(dst, val)
	}
	seg := path[0]
	for dst.Kind() == reflect.Ptr {
		if dst.IsNil() {
			dst.Set(reflect.New(dst.Type().Elem()))
		}
		dst = dst.Elem()
	}
	switch {
	case dst.Kind() == reflect.Interface && dst.Type() == anyT:
		m, ok := dst.Interface().(map[string]any)
		if !ok || m == nil {
			m = map[string]any{}
			dst.Set(reflect.ValueOf(m))
		}
		return refSetMap(reflect.ValueOf(m), seg, path[1:], val)
	case dst.Kind() == reflect.Map:
		if dst.Type().Key().Kind() != reflect.String {
			return fmt.Errorf("map key type")
		}
		if dst.IsNil() {
			dst.Set(reflect.MakeMap(dst.Type()))
		}
		return refSetMap(dst, seg, path[1:], val)
	case dst.Kind() == reflect.Struct:
		f, ok := dst.Type().FieldByName(seg)
		if !ok || f.PkgPath != "" {
			return fmt.Errorf("no exported field %q", seg)
		}
		return refSet(dst.FieldByName(seg), path[1:], val)
	}
	return fmt.Errorf("cannot step into %v with %q", dst.Type(), seg)
}

func refSetMap(m reflect.Value, key string, rest []string, val any) error {
	et := m.Type().Elem()
	elem := reflect.New(et).Elem()
	if old := m.MapIndex(reflect.ValueOf(key)); old.IsValid() {
		elem.Set(old)
	}
	if err := refSet(elem, rest, val); err != nil {
		return err
	}
	m.SetMapIndex(reflect.ValueOf(key), elem)
	return nil
}

func assignLeaf(dst reflect.Value, val any) error {
	if val == nil {
		switch dst.Kind() {
		case reflect.Map, reflect.Slice, reflect.Ptr, reflect.Interface:
			dst.Set(reflect.Zero(dst.Type()))
			return nil
		}
		return fmt.Errorf("nil into %v", dst.Type())
	}
	rv := reflect.ValueOf(val)
	if !rv.Type().AssignableTo(dst.Type()) {
		return fmt.Errorf("%v not assignable to %v", rv.Type(), dst.Type())
	}
	dst.Set(rv)
	return nil
}

func overlapping(a, b []string) bool {
	n := len(a)
	if len(b) < n {
		n = len(b)
	}
	for i := 0; i < n; i++ {
		if a[i] != b[i] {
			return false
		}
	}
	return true
}

// normalised deep equality: nil and empty containers are the same
func eq15(a, b reflect.Value) bool {
	if a.IsValid() != b.IsValid() {
		// an invalid value equals an empty container / nil
		v := a
		if !v.IsValid() {
			v = b
		}
		switch v.Kind() {
		case reflect.Map, reflect.Slice:
			return v.Len() == 0
		case reflect.Ptr, reflect.Interface:
			return v.IsNil()
		}
		return false
	}
	if !a.IsValid() {
		return true
	}
	for a.Kind() == reflect.Interface && b.Kind() == reflect.Interface {
		if a.IsNil() || b.IsNil() {
			if a.IsNil() && b.IsNil() {
				return true
			}
			x := a
			if x.IsNil() {
				x = b
			}
			return eq15(reflect.Value{}, x.Elem())
		}
		a, b = a.Elem(), b.Elem()
	}
	if a.Type() != b.Type() {
		return false
	}
	switch a.Kind() {
	case reflect.Ptr:
		if a.IsNil() || b.IsNil() {
			if a.IsNil() && b.IsNil() {
				return true
			}
			// a nil pointer and a pointer to the zero value both mean "nothing mapped"
			x := a
			if x.IsNil() {
				x = b
			}
			return eq15(x.Elem(), reflect.Zero(x.Type().Elem()))
		}
		return eq15(a.Elem(), b.Elem())
	case reflect.Struct:
		for i := 0; i < a.NumField(); i++ {
			if a.Type().Field(i).PkgPath != "" {
				continue
			}
			if !eq15(a.Field(i), b.Field(i)) {
				return false
			}
		}
		return true
	case reflect.Map:
		if a.Len() != b.Len() {
			return false
		}
		it := a.MapRange()
		for it.Next() {
			bv := b.MapIndex(it.Key())
			if !bv.IsValid() || !eq15(it.Value(), bv) {
				return false
			}
		}
		return true
	case reflect.Slice:
		if a.Len() != b.Len() {
			return false
		}
		for i := 0; i < a.Len(); i++ {
			if !eq15(a.Index(i), b.Index(i)) {
				return false
			}
		}
		return true
	}
	return reflect.DeepEqual(a.Interface(), b.Interface())
}

// ---- building the workflow ------------------------------------------------------------------

type wf15 struct {
	compileErr error
	invoke     func(ctx context.Context) (any, error) // returns the successor's input
	stream     func(ctx context.Context) (any, error)
}

func fm(m Map15) *compose.FieldMapping {
	switch {
	case m.From == nil:
		return compose.ToFieldPath(m.To)
	case m.To == nil:
		return compose.FromFieldPath(m.From)
	}
	return compose.MapFieldPaths(m.From, m.To)
}

func build15[S, D any](c CaseC15, order []int, srcVal S) *wf15 {
	out := &wf15{}
	var captured []D
	wf := compose.NewWorkflow[S, string]()
	wf.AddLambdaNode("p1", compose.InvokableLambda(func(ctx context.Context, in S) (map[string]any, error) {
		return c.Src.buildMap(), nil
	})).AddInput(compose.START)
	var succOpts []compose.GraphAddNodeOpt
	if c.SuccOK {
		succOpts = append(succOpts, compose.WithOutputKey("o"))
	}
	succ := wf.AddLambdaNode("succ", compose.InvokableLambda(func(ctx context.Context, in D) (string, error) {
		captured = append(captured, in)
		return "ok", nil
	}), succOpts...)
	usesP1 := false
	if c.Split {
		for _, i := range order {
			m := c.Maps[i]
			if m.Pred == "p1" {
				usesP1 = true
			}
			succ.AddInput(m.Pred, fm(m))
		}
	} else {
		var ms, mp []*compose.FieldMapping
		for _, i := range order {
			m := c.Maps[i]
			if m.Pred == "p1" {
				mp = append(mp, fm(m))
				usesP1 = true
			} else {
				ms = append(ms, fm(m))
			}
		}
		if len(ms) > 0 {
			if c.NDStart {
				succ.AddInputWithOptions("start", ms, compose.WithNoDirectDependency())
				succ.AddDependency("start")
			} else {
				succ.AddInput("start", ms...)
			}
		}
		if len(mp) > 0 {
			if c.NDP1 {
				succ.AddInputWithOptions("p1", mp, compose.WithNoDirectDependency())
				succ.AddDependency("p1")
			} else {
				succ.AddInput("p1", mp...)
			}
		}
	}
	_ = usesP1
	if c.SuccOK {
		wf.End().AddInput("succ", compose.FromField("o"))
	} else {
		wf.End().AddInput("succ")
	}
	r, err := wf.Compile(context.Background())
	if err != nil {
		out.compileErr = err
		return out
	}
	out.invoke = func(ctx context.Context) (any, error) {
		captured = nil
		_, err := r.Invoke(ctx, srcVal)
		if err != nil {
			return nil, err
		}
		if len(captured) != 1 {
			return nil, fmt.Errorf("harness: successor ran %d times", len(captured))
		}
		return captured[0], nil
	}
	out.stream = func(ctx context.Context) (any, error) {
		captured = nil
		var sr *schema.StreamReader[string]
		var err error
		if mv, ok := any(srcVal).(map[string]any); ok && len(mv) > 1 {
			// a map source arrives in several chunks, one key each: every chunk lacks most mapped keys
			keys := make([]string, 0, len(mv))
			for k := range mv {
				keys = append(keys, k)
			}
			sort.Strings(keys)
			var chunks []S
			for _, k := range keys {
				if nm, ok := mv[k].(map[string]any); ok && k == "nest" && len(nm) > 1 {
					// the nested map is spread over chunks too: a chunk carries the path prefix but not every nested key
					nks := make([]string, 0, len(nm))
					for nk := range nm {
						nks = append(nks, nk)
					}
					sort.Strings(nks)
					for _, nk := range nks {
						chunks = append(chunks, any(map[string]any{k: map[string]any{nk: nm[nk]}}).(S))
					}
					continue
				}
				chunks = append(chunks, any(map[string]any{k: mv[k]}).(S))
			}
			sr, err = r.Transform(ctx, schema.StreamReaderFromArray(chunks))
		} else {
			sr, err = r.Stream(ctx, srcVal)
		}
		if err != nil {
			return nil, err
		}
		defer sr.Close()
		for {
			_, err := sr.Recv()
			if err == io.EOF {
				break
			}
			if err != nil {
				return nil, err
			}
		}
		if len(captured) != 1 {
			return nil, fmt.Errorf("harness: successor ran %d times", len(captured))
		}
		return captured[0], nil
	}
	return out
}

func buildCase15(c CaseC15, order []int) *wf15 {
	s := c.Src.build()
	switch c.SrcT + ">" + c.DstT {
	case "struct>struct":
		return build15[Src1, Dst1](c, order, s)
	case "struct>ptr":
		return build15[Src1, *Dst1](c, order, s)
	case "struct>map":
		return build15[Src1, map[string]any](c, order, s)
	case "ptr>struct":
		return build15[*Src1, Dst1](c, order, &s)
	case "ptr>ptr":
		return build15[*Src1, *Dst1](c, order, &s)
	case "ptr>map":
		return build15[*Src1, map[string]any](c, order, &s)
	case "map>struct":
		return build15[map[string]any, Dst1](c, order, c.Src.buildMap())
	case "map>ptr":
		return build15[map[string]any, *Dst1](c, order, c.Src.buildMap())
	default:
		return build15[map[string]any, map[string]any](c, order, c.Src.buildMap())
	}
}

func checkC15(c CaseC15) (*vkit.Failure, vkit.Meta) {
	var m vkit.Meta
	if len(c.Maps) == 0 || c.SrcT == "" {
		return nil, m
	}
	f := vkit.Guard("panic-escaped", func() *vkit.Failure {
		n := len(c.Maps)
		orders := [][]int{}
		id := make([]int, n)
		rev := make([]int, n)
		rot := make([]int, n)
		for i := 0; i < n; i++ {
			id[i], rev[i], rot[i] = i, n-1-i, (i+1)%n
		}
		orders = append(orders, id)
		if n > 1 {
			orders = append(orders, rev, rot)
		}
		overlap := false
		for i := 0; i < n; i++ {
			for j := i + 1; j < n; j++ {
				if overlapping(c.Maps[i].To, c.Maps[j].To) {
					overlap = true
				}
			}
		}
		m.Labels = append(m.Labels, "src:"+c.SrcT, "dst:"+c.DstT)
		if overlap {
			m.Labels = append(m.Labels, "overlapping-targets")
		}
		var accepted []bool
		var first *wf15
		for i, o := range orders {
			w := buildCase15(c, o)
			accepted = append(accepted, w.compileErr == nil)
			if i == 0 {
				first = w
			}
		}
		if overlap {
			for i, a := range accepted {
				if a {
					return &vkit.Failure{Kind: "overlap-accepted", Sig: "overlap-accepted", Msg: fmt.Sprintf("target paths overlap (%s) but Compile accepted the set in declaration order #%d (acceptance per order tried: %v)", targets(c), i, accepted)}
				}
			}
			m.NonTrivial = n >= 2
			return nil
		}
		if first.compileErr != nil {
			m.Labels = append(m.Labels, "rejected-at-compile")
			return nil
		}
		m.Labels = append(m.Labels, "accepted")
		// reference
		var srcStart any
		src := c.Src.build()
		switch c.SrcT {
		case "struct":
			srcStart = src
		case "ptr":
			srcStart = &src
		default:
			srcStart = c.Src.buildMap()
		}
		srcP1 := c.Src.buildMap()
		var dstT reflect.Type
		switch c.DstT {
		case "struct":
			dstT = reflect.TypeOf(Dst1{})
		case "ptr":
			dstT = reflect.TypeOf(&Dst1{})
		default:
			dstT = reflect.TypeOf(map[string]any{})
		}
		want := reflect.New(dstT).Elem()
		var refErr error
		deep := false
		for _, mp := range c.Maps {
			from := srcStart
			if mp.Pred == "p1" {
				from = srcP1
			}
			v, err := refGet(from, mp.From)
			if err != nil {
				refErr = fmt.Errorf("mapping %v->%v: %w", mp.From, mp.To, err)
				break
			}
			if err := refSet(want, mp.To, v); err != nil {
				refErr = fmt.Errorf("mapping %v->%v: %w", mp.From, mp.To, err)
				break
			}
			if len(mp.From) >= 2 || len(mp.To) >= 2 {
				deep = true
			}
		}
		m.NonTrivial = n >= 2 && deep
		ctx := context.Background()
		got1, err1 := first.invoke(ctx)
		if refErr != nil {
			m.Labels = append(m.Labels, "runtime-error-expected")
			if err1 == nil {
				return &vkit.Failure{Kind: "runtime-mismatch-not-reported", Sig: "runtime-mismatch-not-reported", Msg: fmt.Sprintf("the reference cannot evaluate the mappings on this input (%v) but the run succeeded with successor input %s", refErr, render15(got1))}
			}
			if strings.Contains(err1.Error(), "panic error") {
				return &vkit.Failure{Kind: "runtime-check-is-a-panic", Sig: "runtime-check-is-a-panic", Msg: fmt.Sprintf("a mapping that can only be checked at run time (%v) surfaced as a recovered panic: %s", refErr, shortErr(err1))}
			}
			return nil
		}
		if err1 != nil {
			return &vkit.Failure{Kind: "valid-mapping-fails", Sig: "valid-mapping-fails", Msg: fmt.Sprintf("the reference evaluates the accepted mappings to %s but the run failed: %s", render15(want.Interface()), shortErr(err1))}
		}
		if !eq15(reflect.ValueOf(got1), want) {
			return &vkit.Failure{Kind: "mapped-input-differs", Sig: "mapped-input-differs", Msg: fmt.Sprintf("successor received %s, reference says %s", render15(got1), render15(want.Interface()))}
		}
		got2, err2 := first.invoke(ctx)
		if err2 != nil || !eq15(reflect.ValueOf(got2), want) {
			return &vkit.Failure{Kind: "second-run-differs", Sig: "second-run-differs", Msg: fmt.Sprintf("second Invoke: %s / %v, reference %s", render15(got2), err2, render15(want.Interface()))}
		}
		got3, err3 := first.stream(ctx)
		if err3 != nil || !eq15(reflect.ValueOf(got3), want) {
			return &vkit.Failure{Kind: "stream-differs", Sig: "stream-differs", Msg: fmt.Sprintf("Stream: successor received %s / err=%v, Invoke gave %s", render15(got3), shortErrOrNil(err3), render15(want.Interface()))}
		}
		// sources untouched: rebuild and compare
		fresh := c.Src.build()
		var freshStart any = fresh
		if c.SrcT == "ptr" {
			freshStart = &fresh
		} else if c.SrcT == "map" {
			freshStart = c.Src.buildMap()
		}
		if !reflect.DeepEqual(srcStart, freshStart) {
			return vkit.Failf("source-modified", "the predecessor's output was modified by the mapping")
		}
		return nil
	})
	return f, m
}

func shortErrOrNil(err error) string {
	if err == nil {
		return "<nil>"
	}
	return shortErr(err)
}

func targets(c CaseC15) string {
	var ts []string
	for _, mp := range c.Maps {
		ts = append(ts, strings.Join(mp.To, "."))
	}
	sort.Strings(ts)
	return strings.Join(ts, " | ")
}

func render15(v any) string {
	if v == nil {
		return "<nil>"
	}
	rv := reflect.ValueOf(v)
	if rv.Kind() == reflect.Ptr && !rv.IsNil() {
		return "&" + vkit.Short(fmt.Sprintf("%+v", rv.Elem().Interface()), 400)
	}
	return vkit.Short(fmt.Sprintf("%+v", v), 400)
}

func TestC15(t *testing.T) {
	rec := vkit.NewRecorder("C15")
	vkit.Prop(t, rec, genC15, checkC15)
}

func TestC15Replay(t *testing.T) {
	vkit.Replay(t, "C15", checkC15)
}
