package compose_test

// C11, shared-lambda part: one *compose.Lambda value may be added to several nodes (of one graph, of a nested
// graph, of a graph built later); every node still has its OWN state handlers: "a node's pre-handler runs before
// it and its post-handler after it, and the values they return are what the node and its successors receive".
//
// Generated: a pool of 1-2 lambda values; a pipeline of 2-5 nodes each taking a lambda from the pool and an own
// (optional) pre- and post-handler; optionally a stretch of the pipeline moved into a nested graph (with or
// without its own state); optionally a second graph over the same pool, with other handlers, compiled after
// the first one and before it runs.  Oracle: fold of the per-node functions (reference model) for the output,
// and the exact handler sequence in the state log.

import (
	"context"
	"fmt"
	"strings"
	"testing"

	"github.com/cloudwego/eino/compose"
	"github.com/cloudwego/eino/internal/vkit"
	rapid "github.com/cloudwego/eino/internal/vrapid"
)

type N11s struct {
	L    int  `json:"l"`
	Pre  bool `json:"pre,omitempty"`
	Post bool `json:"post,omitempty"`
}

type CaseC11s struct {
	Pool       int    `json:"pool"`
	Nodes      []N11s `json:"nodes"`
	SubFrom    int    `json:"subfrom"` // nodes [SubFrom, SubTo) live in a nested graph (SubTo <= SubFrom: none)
	SubTo      int    `json:"subto"`
	SubState   bool   `json:"substate,omitempty"`
	Other      []N11s `json:"other,omitempty"` // a second graph over the same pool, compiled after the first
	OtherFirst bool   `json:"otherfirst,omitempty"`
	Stream     bool   `json:"stream,omitempty"`
}

type st11s struct{ Log []string }

func genC11s(t *rapid.T) CaseC11s {
	c := CaseC11s{Pool: rapid.IntRange(1, 2).Draw(t, "pool"), Stream: rapid.IntRange(0, 3).Draw(t, "stream") == 0}
	gen := func(label string, lo, hi int) []N11s {
		var ns []N11s
		for i := rapid.IntRange(lo, hi).Draw(t, label); i > 0; i-- {
			ns = append(ns, N11s{L: rapid.IntRange(0, c.Pool-1).Draw(t, "l"), Pre: rapid.Bool().Draw(t, "pre"), Post: rapid.Bool().Draw(t, "post")})
		}
		return ns
	}
	c.Nodes = gen("nNodes", 2, 5)
	if rapid.IntRange(0, 2).Draw(t, "nested") == 0 {
		c.SubFrom = rapid.IntRange(0, len(c.Nodes)-1).Draw(t, "subFrom")
		c.SubTo = rapid.IntRange(c.SubFrom+1, len(c.Nodes)).Draw(t, "subTo")
		c.SubState = rapid.Bool().Draw(t, "subState")
	}
	if rapid.IntRange(0, 2).Draw(t, "other") == 0 {
		c.Other = gen("nOther", 1, 3)
		c.OtherFirst = rapid.Bool().Draw(t, "otherFirst")
	}
	return c
}

// build11s builds one pipeline graph over the pool.  Node i of graph `name` is called name+i.
func build11s(pool []*compose.Lambda, name string, nodes []N11s, subFrom, subTo int, subState bool) (*compose.Graph[string, string], error) {
	handlers := func(key string, n N11s) []compose.GraphAddNodeOpt {
		var opts []compose.GraphAddNodeOpt
		if n.Pre {
			opts = append(opts, compose.WithStatePreHandler(func(ctx context.Context, in string, st *st11s) (string, error) {
				st.Log = append(st.Log, "pre:"+key)
				return in + "<" + key, nil
			}))
		}
		if n.Post {
			opts = append(opts, compose.WithStatePostHandler(func(ctx context.Context, out string, st *st11s) (string, error) {
				st.Log = append(st.Log, "post:"+key)
				return out + key + ">", nil
			}))
		}
		return opts
	}
	gen := func(ctx context.Context) *st11s {
		st := &st11s{}
		if h, ok := ctx.Value(hold11sKey{}).(*hold11s); ok {
			h.states = append(h.states, st)
		}
		return st
	}
	g := compose.NewGraph[string, string](compose.WithGenLocalState(gen))
	var sub *compose.Graph[string, string]
	if subTo > subFrom {
		if subState {
			sub = compose.NewGraph[string, string](compose.WithGenLocalState(gen))
		} else {
			sub = compose.NewGraph[string, string]()
		}
	}
	prev, sprev := compose.START, compose.START
	for i, n := range nodes {
		key := fmt.Sprintf("%s%d", name, i)
		if sub != nil && i >= subFrom && i < subTo {
			if err := sub.AddLambdaNode(key, pool[n.L], handlers(key, n)...); err != nil {
				return nil, err
			}
			if err := sub.AddEdge(sprev, key); err != nil {
				return nil, err
			}
			sprev = key
			if i == subTo-1 {
				if err := sub.AddEdge(sprev, compose.END); err != nil {
					return nil, err
				}
				if err := g.AddGraphNode(name+"sub", sub); err != nil {
					return nil, err
				}
				if err := g.AddEdge(prev, name+"sub"); err != nil {
					return nil, err
				}
				prev = name + "sub"
			}
			continue
		}
		if err := g.AddLambdaNode(key, pool[n.L], handlers(key, n)...); err != nil {
			return nil, err
		}
		if err := g.AddEdge(prev, key); err != nil {
			return nil, err
		}
		prev = key
	}
	return g, g.AddEdge(prev, compose.END)
}

type hold11sKey struct{}
type hold11s struct{ states []*st11s }

func model11s(name string, nodes []N11s, in string) (string, []string) {
	v := in
	var log []string
	for i, n := range nodes {
		key := fmt.Sprintf("%s%d", name, i)
		if n.Pre {
			log = append(log, "pre:"+key)
			v += "<" + key
		}
		v += fmt.Sprintf("|L%d", n.L)
		if n.Post {
			log = append(log, "post:"+key)
			v += key + ">"
		}
	}
	return v, log
}

func checkC11s(c CaseC11s) (*vkit.Failure, vkit.Meta) {
	var m vkit.Meta
	if c.Pool < 1 || len(c.Nodes) == 0 {
		return nil, m
	}
	if c.SubTo > c.SubFrom && !c.SubState {
		// nodes of a nested graph without state cannot carry state handlers (the graph rejects them)
		c.Nodes = append([]N11s(nil), c.Nodes...)
		for i := c.SubFrom; i < c.SubTo && i < len(c.Nodes); i++ {
			c.Nodes[i].Pre, c.Nodes[i].Post = false, false
		}
	}
	f := vkit.Guard("panic-escaped", func() *vkit.Failure {
		pool := make([]*compose.Lambda, c.Pool)
		for i := range pool {
			tag := fmt.Sprintf("|L%d", i)
			pool[i] = compose.InvokableLambda(func(ctx context.Context, in string) (string, error) { return in + tag, nil })
		}
		ctx := context.Background()
		g, err := build11s(pool, "a", c.Nodes, c.SubFrom, c.SubTo, c.SubState)
		if err != nil {
			return vkit.Failf("build-failed", "%v", err)
		}
		var r, ro compose.Runnable[string, string]
		compileOther := func() *vkit.Failure {
			if len(c.Other) == 0 {
				return nil
			}
			og, err := build11s(pool, "b", c.Other, 0, 0, false)
			if err != nil {
				return vkit.Failf("build-failed", "%v", err)
			}
			if ro, err = og.Compile(ctx); err != nil {
				return vkit.Failf("compile-rejected-wellformed-graph", "second graph: %v", err)
			}
			return nil
		}
		if c.OtherFirst {
			if f := compileOther(); f != nil {
				return f
			}
		}
		if r, err = g.Compile(ctx); err != nil {
			return vkit.Failf("compile-rejected-wellformed-graph", "%v", err)
		}
		if !c.OtherFirst {
			if f := compileOther(); f != nil {
				return f
			}
		}
		run := func(r compose.Runnable[string, string], what, name string, nodes []N11s) *vkit.Failure {
			h := &hold11s{}
			rctx := context.WithValue(ctx, hold11sKey{}, h)
			var out string
			var err error
			if c.Stream {
				sr, e := r.Stream(rctx, "x")
				err = e
				if e == nil {
					for {
						s, e := sr.Recv()
						if e != nil {
							if e.Error() != "EOF" {
								err = e
							}
							break
						}
						out += s
					}
					sr.Close()
				}
			} else {
				out, err = r.Invoke(rctx, "x")
			}
			if err != nil {
				return vkit.Failf("run-failed", "%s failed: %s", what, shortErr(err))
			}
			wantOut, wantLog := model11s(name, nodes, "x")
			if out != wantOut {
				return &vkit.Failure{Kind: "handler-values", Sig: "shared-lambda-handler-values", Msg: fmt.Sprintf("%s returned %q; with every node's own pre/post handler applied around it the result is %q", what, out, wantOut)}
			}
			var gotLog []string
			for _, st := range h.states {
				gotLog = append(gotLog, st.Log...)
			}
			// with a stateful nested graph the entries are split over two state objects; the handler sequence of each
			// object is a subsequence of the whole, so compare as multisets plus per-object order
			if !(c.SubState && name == "a" && c.SubTo > c.SubFrom) {
				if strings.Join(gotLog, ",") != strings.Join(wantLog, ",") {
					return &vkit.Failure{Kind: "handler-sequence", Sig: "shared-lambda-handler-sequence", Msg: fmt.Sprintf("%s: state log %v, the handlers of the nodes in execution order give %v", what, gotLog, wantLog)}
				}
			} else if vkit.JoinSorted(gotLog, ",") != vkit.JoinSorted(wantLog, ",") {
				return &vkit.Failure{Kind: "handler-sequence", Sig: "shared-lambda-handler-sequence", Msg: fmt.Sprintf("%s: state logs %v, the handlers of the nodes give %v", what, gotLog, wantLog)}
			}
			return nil
		}
		if f := run(r, "the graph", "a", c.Nodes); f != nil {
			return f
		}
		if ro != nil {
			if f := run(ro, "the second graph over the same lambdas", "b", c.Other); f != nil {
				return f
			}
			if f := run(r, "the first graph (after the second ran)", "a", c.Nodes); f != nil {
				return f
			}
		}
		shared := map[int]int{}
		distinct := map[string]bool{}
		for _, n := range append(append([]N11s(nil), c.Nodes...), c.Other...) {
			shared[n.L]++
			distinct[fmt.Sprint(n.L, n.Pre, n.Post)] = true
		}
		for l, k := range shared {
			if k >= 2 {
				m.NonTrivial = len(distinct) > len(shared)
				_ = l
			}
		}
		if c.SubTo > c.SubFrom {
			m.Labels = append(m.Labels, "lambda-shared-with-nested-graph")
		}
		if len(c.Other) > 0 {
			m.Labels = append(m.Labels, "lambda-shared-with-second-graph")
		}
		return nil
	})
	return f, m
}

func TestC11Shared(t *testing.T) {
	rec := vkit.NewRecorder("C11")
	vkit.Prop(t, rec, genC11s, checkC11s)
}

func TestC11SharedReplay(t *testing.T) {
	vkit.Replay(t, "C11", checkC11s)
}
