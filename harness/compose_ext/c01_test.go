package compose_test

// C01: any-predecessor (Pregel) runs follow lock-step superstep semantics and terminate;
// chains are sequential composition.  Oracle: the independent superstep interpreter
// gkit.Ref (reference model): same output or same failure class, same node executions.

import (
	"context"
	"errors"
	"fmt"
	"strings"
	"testing"

	"github.com/cloudwego/eino/compose"
	"github.com/cloudwego/eino/internal/gkit"
	"github.com/cloudwego/eino/internal/vkit"
	rapid "github.com/cloudwego/eino/internal/vrapid"
)

type CaseGraph struct {
	Spec     *gkit.Spec `json:"spec"`
	Input    any        `json:"input"`
	Paradigm string     `json:"paradigm"` // invoke | stream
	CallMax  int        `json:"callmax,omitempty"`
	// Prior (C01 only): inputs of earlier runs on the same compiled runnable; each is judged like the main
	// run (a run must not depend on what earlier runs - failed ones included - left behind)
	Prior []any `json:"prior,omitempty"`
	// PreMax (C01 only): the graph object is first compiled with WithMaxRunSteps(PreMax) and that runnable dropped;
	// the runnable under test comes from a second Compile of the same object with the options of the spec
	PreMax int `json:"premax,omitempty"`
	// ShareBr (C01 only): branches with the same definition are one GraphBranch value added to several nodes
	ShareBr bool `json:"sharebr,omitempty"`
}

func genC01(t *rapid.T) CaseGraph {
	cfg := gkit.GenCfg{MaxNodes: 7, Depth: 2, Cycles: true, SubModes: []string{"pregel", "pregel", "dag", "chain"}}
	if vkit.Thorough() {
		cfg.MaxNodes = 10
		cfg.Depth = 3
	}
	mode := "pregel"
	if rapid.IntRange(0, 3).Draw(t, "chain") == 0 {
		mode = "chain"
		cfg.MaxNodes = 6
	}
	c := CaseGraph{Spec: gkit.GenSpec(t, mode, cfg)}
	if mode == "pregel" && rapid.IntRange(0, 9).Draw(t, "sharedBranch") == 0 {
		c.Spec = genSharedBranch(t)
		c.ShareBr = true
	} else if mode == "pregel" && rapid.IntRange(0, 4).Draw(t, "shareBr") == 0 {
		c.ShareBr = true
	}
	c.Input = gkit.GenInput(t, c.Spec.In)
	c.Paradigm = "invoke"
	if rapid.IntRange(0, 4).Draw(t, "stream") == 0 || (c.ShareBr && rapid.Bool().Draw(t, "streamShared")) {
		c.Paradigm = "stream"
	}
	if mode == "pregel" && rapid.IntRange(0, 5).Draw(t, "callMax") == 0 {
		c.CallMax = rapid.IntRange(1, len(c.Spec.Nodes)+4).Draw(t, "callMaxV")
	}
	if mode == "pregel" && rapid.IntRange(0, 5).Draw(t, "preCompile") == 0 {
		c.PreMax = rapid.IntRange(1, 60).Draw(t, "preMax")
	}
	if rapid.IntRange(0, 2).Draw(t, "withPrior") == 0 {
		for i := rapid.IntRange(1, 3).Draw(t, "nPrior"); i > 0; i-- {
			c.Prior = append(c.Prior, gkit.GenInput(t, c.Spec.In))
		}
	}
	return c
}

func (c CaseGraph) buildOpts() *gkit.BuildOpts {
	if c.PreMax <= 0 && !c.ShareBr {
		return nil
	}
	bo := &gkit.BuildOpts{ShareBranches: c.ShareBr}
	if c.PreMax > 0 {
		bo.PreCompile = []compose.GraphCompileOption{compose.WithMaxRunSteps(c.PreMax)}
	}
	return bo
}

// genSharedBranch: two producers of one step whose branches over the same two targets are defined identically (and
// therefore are one shared GraphBranch value); one of the producers has another branch besides it, in a generated
// position, and the branches are added in a generated order.
func genSharedBranch(t *rapid.T) *gkit.Spec {
	sp := &gkit.Spec{Mode: "pregel", In: "S", Out: "M"}
	for _, k := range []string{"a", "b"} {
		sp.Nodes = append(sp.Nodes, gkit.NodeSpec{Key: k, Kind: "lambda", In: "S"})
		sp.Edges = append(sp.Edges, gkit.Edge{From: gkit.Start, To: k})
	}
	for _, k := range []string{"t1", "t2"} {
		sp.Nodes = append(sp.Nodes, gkit.NodeSpec{Key: k, Kind: "lambda", In: "S", OutputKey: k, Digest: true})
		sp.Edges = append(sp.Edges, gkit.Edge{From: k, To: gkit.End})
	}
	same := gkit.Branch{Targets: []string{"t1", "t2"}, Multi: rapid.Bool().Draw(t, "sharedMulti"), Stream: rapid.Bool().Draw(t, "sharedStream"), Salt: rapid.IntRange(0, 7).Draw(t, "sharedSalt")}
	other := gkit.Branch{From: "a", Targets: []string{"t1", "t2"}, Multi: true, Stream: rapid.Bool().Draw(t, "otherStream"), Salt: rapid.IntRange(8, 15).Draw(t, "otherSalt")}
	sa, sb := same, same
	sa.From, sb.From = "a", "b"
	sa.Targets, sb.Targets = append([]string(nil), same.Targets...), append([]string(nil), same.Targets...)
	orders := [][]gkit.Branch{{other, sa, sb}, {sb, other, sa}, {sa, other, sb}, {sb, sa, other}}
	sp.Branches = orders[rapid.IntRange(0, len(orders)-1).Draw(t, "branchOrder")]
	return sp
}

// classifyErr maps a run error to the failure classes of the reference model.
func classifyErr(err error) string {
	if err == nil {
		return ""
	}
	s := err.Error()
	switch {
	case errors.Is(err, compose.ErrExceedMaxSteps) || strings.Contains(s, "exceeds max steps"):
		return "maxsteps"
	case strings.Contains(s, "no tasks to execute") || strings.Contains(s, "unknown node: end"):
		// all-predecessor mode reports a skipped END as "unknown node: end"
		return "notasks"
	case strings.Contains(s, "cannot find input key") || strings.Contains(s, "inputStreamFilter failed") || strings.Contains(s, "stream reader is empty, concat fail") || strings.Contains(s, "gkit: empty input stream"):
		return "inputkey"
	case strings.Contains(s, "duplicated key") || strings.Contains(s, "(mergeValues") || strings.Contains(s, "(mergeMap)") || strings.Contains(s, "(mergeStream)"):
		return "merge"
	case strings.Contains(s, "unexpected input type") || strings.Contains(s, "isn't expected type"):
		return "typemismatch"
	case errors.Is(err, gkit.ErrSentinel) || strings.Contains(s, "injected failure") || strings.Contains(s, "injected panic"):
		return "fault"
	case errors.Is(err, gkit.ErrRunaway) || strings.Contains(s, "more often than the step limit"):
		return "runaway"
	}
	return "other:" + vkit.Short(s, 200)
}

func baseClass(c string) string {
	for strings.HasPrefix(c, "sub:") {
		c = strings.TrimPrefix(c, "sub:")
	}
	return c
}

func fixInput(sp *gkit.Spec, in any) any {
	// JSON replay turns map[string]any leaves into the same shape; a nil input becomes the zero value
	if in == nil {
		return gkit.ZeroOf(sp.In)
	}
	if sp.In == "S" {
		if s, ok := in.(string); ok {
			return s
		}
		return fmt.Sprint(in)
	}
	if m, ok := in.(map[string]any); ok {
		return m
	}
	return map[string]any{}
}

// runSpec compiles and runs one case; it returns output, error, executions.
func runSpec(ctx context.Context, r *gkit.Runner, env *gkit.CallEnv, c CaseGraph, opts ...compose.Option) (any, error) {
	ctx = env.With(ctx)
	in := fixInput(c.Spec, c.Input)
	switch c.Paradigm {
	case "stream":
		sr, err := r.Stream(ctx, in, opts...)
		if err != nil {
			return nil, err
		}
		v, _, err := gkit.DrainAny(sr)
		return v, err
	case "collect":
		return r.Collect(ctx, gkit.ChunkInput(in, 2), opts...)
	case "transform":
		sr, err := r.Transform(ctx, gkit.ChunkInput(in, 2), opts...)
		if err != nil {
			return nil, err
		}
		v, _, err := gkit.DrainAny(sr)
		return v, err
	default:
		return r.Invoke(ctx, in, opts...)
	}
}

func checkC01(c CaseGraph) (*vkit.Failure, vkit.Meta) {
	var r *gkit.Runner
	priorFailed := false
	if len(c.Prior) > 0 && c.Spec != nil {
		var err error
		r, err = gkit.Compile(context.Background(), c.Spec, c.buildOpts())
		if err != nil {
			return vkit.Failf("compile-rejected-wellformed-graph", "Compile failed on a well-typed generated graph: %v", err), vkit.Meta{}
		}
		for i, p := range c.Prior {
			pc := c
			pc.Input, pc.Prior = p, nil
			if i%2 == 1 {
				pc.Paradigm = "invoke"
			}
			pf, _, pref := checkRef(pc, r)
			if pf != nil {
				pf.Msg = fmt.Sprintf("run %d of %d on one compiled runnable (input %s): %s", i+1, len(c.Prior)+1, gkit.Canon(p), pf.Msg)
				return pf, vkit.Meta{}
			}
			if pref != nil && pref.Fail != "" {
				priorFailed = true
			}
		}
	}
	f, m, ref := checkRef(c, r)
	if f != nil && len(c.Prior) > 0 {
		f.Msg = fmt.Sprintf("run %d of %d on one compiled runnable: %s", len(c.Prior)+1, len(c.Prior)+1, f.Msg)
	}
	if priorFailed {
		m.Labels = append(m.Labels, "earlier-run-on-same-runnable-failed")
	}
	if c.PreMax > 0 {
		m.Labels = append(m.Labels, "compiled-before-with-another-step-limit")
	}
	if c.ShareBr {
		m.Labels = append(m.Labels, "equal-branches-are-one-shared-value")
	}
	if edgeBesideBranch(c.Spec) {
		m.Labels = append(m.Labels, "edge-beside-branch-to-same-successor")
	}
	if ref != nil {
		chainStruct := false
		for _, st := range c.Spec.Stages {
			if st.Kind != "node" {
				chainStruct = true
			}
		}
		m.NonTrivial = !ref.Ambiguous && len(ref.Execs) >= 3 && (ref.FanInSameStep || ref.MaxNodeRuns >= 2 || ref.BranchVaried || ref.GraphNodeRan || chainStruct)
	}
	return f, m
}

// checkRef runs one case against the reference model of its mode.  r may carry an
// already compiled runner (nil = compile here).
func checkRef(c CaseGraph, r *gkit.Runner) (*vkit.Failure, vkit.Meta, *gkit.RefResult) {
	var m vkit.Meta
	var ref *gkit.RefResult
	if c.Spec == nil {
		return nil, m, nil // not a case of this kind (foreign replay file)
	}
	f := vkit.Guard("panic-escaped", func() *vkit.Failure {
		in := fixInput(c.Spec, c.Input)
		ref = gkit.Ref(c.Spec, "", in, gkit.RefOpts{MaxSteps: c.CallMax})
		m.Labels = append(m.Labels, "mode:"+c.Spec.Mode, "paradigm:"+c.Paradigm, "ref:"+refClass(ref))
		if ref.FanInSameStep {
			m.Labels = append(m.Labels, "fan-in-same-step")
		}
		if ref.MaxNodeRuns >= 2 {
			m.Labels = append(m.Labels, "cycle>=2-iterations")
		}
		if ref.BranchVaried {
			m.Labels = append(m.Labels, "branch-decisions-differ")
		}
		if ref.GraphNodeRan {
			m.Labels = append(m.Labels, "graph-node-ran")
		}
		if len(ref.Skipped) > 0 {
			m.Labels = append(m.Labels, "node-skipped")
		}
		if ref.MixedPreds {
			m.Labels = append(m.Labels, "mixed-skipped/finished-predecessors")
		}
		if baseClass(ref.Fail) == "merge" && c.Paradigm == "stream" {
			// streams are merged chunk-wise; duplicate keys are only detected for values
			ref.Ambiguous = true
		}
		if ref.Ambiguous {
			m.Labels = append(m.Labels, "ambiguous-skipped")
			m.NonTrivial = false
			return nil
		}
		ctx := context.Background()
		if r == nil {
			var err error
			r, err = gkit.Compile(ctx, c.Spec, c.buildOpts())
			if err != nil {
				return vkit.Failf("compile-rejected-wellformed-graph", "Compile failed on a well-typed generated graph: %v", err)
			}
		}
		env := gkit.NewEnv("c01")
		env.MaxRunsPerNode = 400
		var opts []compose.Option
		if c.CallMax > 0 {
			opts = append(opts, compose.WithRuntimeMaxSteps(c.CallMax))
		}
		out, rerr := runSpec(ctx, r, env, c, opts...)
		got := classifyErr(rerr)
		want := baseClass(ref.Fail)
		if got != want {
			return &vkit.Failure{Kind: "outcome-class", Sig: "outcome-class", Msg: fmt.Sprintf("run ended with %q, reference model says %q (err=%v)", got, want, shortErr(rerr)),
				Detail: map[string]any{"model_out": gkit.Canon(ref.Out), "got_out": gkit.Canon(out)}}
		}
		if want == "" && gkit.Canon(out) != gkit.Canon(ref.Out) {
			return &vkit.Failure{Kind: "output-mismatch", Sig: "output-mismatch", Msg: fmt.Sprintf("output %q, reference model says %q", vkit.Short(gkit.Canon(out), 300), vkit.Short(gkit.Canon(ref.Out), 300))}
		}
		if !ref.ExecsUncertain {
			if d := gkit.DiffExecs(env.Execs(), ref.Execs, ref.Optional...); d != "" {
				return &vkit.Failure{Kind: "executions-mismatch", Sig: "executions-mismatch", Msg: d}
			}
			if c.Paradigm == "invoke" && len(ref.Optional) == 0 {
				if d := gkit.DiffExecSeq(env.Execs(), ref.Execs); d != "" {
					return &vkit.Failure{Kind: "execution-order-mismatch", Sig: "execution-order-mismatch", Msg: d}
				}
			}
		}
		return nil
	})
	return f, m, ref
}

func refClass(r *gkit.RefResult) string {
	if r.Fail == "" {
		return "ok"
	}
	return r.Fail
}

func shortErr(err error) string {
	if err == nil {
		return "<nil>"
	}
	return vkit.Short(strings.ReplaceAll(err.Error(), "\n", " | "), 400)
}

func TestC01(t *testing.T) {
	rec := vkit.NewRecorder("C01")
	vkit.Prop(t, rec, genC01, checkC01)
}

func TestC01Replay(t *testing.T) {
	vkit.Replay(t, "C01", checkC01)
}

// edgeBesideBranch: some node has a plain edge and a branch that both lead to the same successor.
func edgeBesideBranch(sp *gkit.Spec) bool {
	if sp == nil {
		return false
	}
	for _, b := range sp.Branches {
		for _, t := range b.Targets {
			for _, e := range sp.Edges {
				if e.From == b.From && e.To == t {
					return true
				}
			}
		}
	}
	for i := range sp.Nodes {
		if sp.Nodes[i].Sub != nil && edgeBesideBranch(sp.Nodes[i].Sub) {
			return true
		}
	}
	return false
}
