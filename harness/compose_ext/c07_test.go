package compose_test

// C07: a graph that builds and compiles cannot hit a type mismatch between concretely typed
// nodes at run time; where the upstream type is an interface the dynamic value is checked at run
// time and an ordinary error is reported exactly when it is not assignable.
//
// Generated: pipelines START -> x1 -> ... -> xk -> END over a type universe (string, int, struct
// A, *A, map[string]any, []string, any, fmt.Stringer, Iface), with pass-through nodes whose type
// must be inferred, typed branch conditions, typed state pre-handlers, all connections added in
// a generated order, roughly half of the cases containing a deliberate concrete mismatch; and
// dynamic values of every type (and nil) for interface-typed positions.
// Oracle: a reference walks the pipeline with the dynamic values.  If Add*/Compile accepted the
// graph, the run must succeed exactly when every value is assignable to the position it reaches;
// a failure on a connection whose two declared types are concrete means the mismatch was accepted
// statically: violation (reported only with this dynamic evidence).  Never a panic out of a run.

import (
	"context"
	"fmt"
	"reflect"
	"strings"
	"testing"

	"github.com/cloudwego/eino/compose"
	"github.com/cloudwego/eino/internal/vkit"
	rapid "github.com/cloudwego/eino/internal/vrapid"
)

type TA struct{ V string }

func (a *TA) String() string { return "A:" + a.V }
func (a TA) IfaceM() string  { return "iface:" + a.V }

type Iface interface{ IfaceM() string }

// defined types whose underlying type is one of the unnamed types of the universe: assignable in the sense of
// the Go spec, but a value of one never passes a type assertion to the other
type NMap map[string]any
type NSlice []string

var c07Types = []string{"string", "int", "A", "*A", "map", "[]string", "NMap", "NSlice", "any", "Stringer", "Iface"}

const c07Concrete = 8 // the first c07Concrete entries of c07Types are concrete types

var c07RT = map[string]reflect.Type{
	"string": reflect.TypeOf(""), "int": reflect.TypeOf(0), "A": reflect.TypeOf(TA{}), "*A": reflect.TypeOf(&TA{}),
	"map": reflect.TypeOf(map[string]any{}), "[]string": reflect.TypeOf([]string{}),
	"NMap": reflect.TypeOf(NMap{}), "NSlice": reflect.TypeOf(NSlice{}),
	"any": reflect.TypeOf((*any)(nil)).Elem(), "Stringer": reflect.TypeOf((*fmt.Stringer)(nil)).Elem(), "Iface": reflect.TypeOf((*Iface)(nil)).Elem(),
}

func isIface(t string) bool { return t == "any" || t == "Stringer" || t == "Iface" }

// concrete value of a concrete type name ("nil" -> nil)
func c07Value(name string) any {
	switch name {
	case "string":
		return "s"
	case "int":
		return 7
	case "A":
		return TA{V: "a"}
	case "*A":
		return &TA{V: "p"}
	case "map":
		return map[string]any{"k": "v"}
	case "[]string":
		return []string{"x"}
	case "NMap":
		return NMap{"k": "v"}
	case "NSlice":
		return NSlice{"x"}
	}
	return nil
}

type c07Rec struct {
	got map[string]string // node key -> dynamic type it received
}

type c07Key struct{}

// lambda registry: (in, out) -> constructor taking the node key and the dynamic type to emit
var c07Lambdas = map[string]func(key, dyn string) *compose.Lambda{}
var c07Branches = map[string]func(targets map[string]bool, pickKey string) *compose.GraphBranch{}
var c07PreHandlers = map[string]func() compose.GraphAddNodeOpt{}

type c07State struct{ N int }

func emit[O any](dyn string) O {
	var zero O
	ot := reflect.TypeOf((*O)(nil)).Elem()
	if ot.Kind() != reflect.Interface {
		v, _ := c07Value(typeName(ot)).(O)
		return v
	}
	if dyn == "nil" {
		return zero
	}
	v, ok := c07Value(dyn).(O)
	if !ok {
		return zero
	}
	return v
}

func typeName(t reflect.Type) string {
	for n, rt := range c07RT {
		if rt == t {
			return n
		}
	}
	return t.String()
}

func regIO[I, O any](in, out string) {
	c07Lambdas[in+">"+out] = func(key, dyn string) *compose.Lambda {
		return compose.InvokableLambda(func(ctx context.Context, x I) (O, error) {
			if r, ok := ctx.Value(c07Key{}).(*c07Rec); ok {
				r.got[key] = fmt.Sprintf("%T", any(x))
			}
			return emit[O](dyn), nil
		})
	}
}

func regIn[I any](in string) {
	regIO[I, string](in, "string")
	regIO[I, int](in, "int")
	regIO[I, TA](in, "A")
	regIO[I, *TA](in, "*A")
	regIO[I, map[string]any](in, "map")
	regIO[I, []string](in, "[]string")
	regIO[I, NMap](in, "NMap")
	regIO[I, NSlice](in, "NSlice")
	regIO[I, any](in, "any")
	regIO[I, fmt.Stringer](in, "Stringer")
	regIO[I, Iface](in, "Iface")
	c07Branches[in] = func(targets map[string]bool, pickKey string) *compose.GraphBranch {
		return compose.NewGraphBranch(func(ctx context.Context, x I) (string, error) { return pickKey, nil }, targets)
	}
	c07PreHandlers[in] = func() compose.GraphAddNodeOpt {
		return compose.WithStatePreHandler(func(ctx context.Context, x I, s *c07State) (I, error) { return x, nil })
	}
}

func init() {
	regIn[string]("string")
	regIn[int]("int")
	regIn[TA]("A")
	regIn[*TA]("*A")
	regIn[map[string]any]("map")
	regIn[[]string]("[]string")
	regIn[NMap]("NMap")
	regIn[NSlice]("NSlice")
	regIn[any]("any")
	regIn[fmt.Stringer]("Stringer")
	regIn[Iface]("Iface")
}

type Node07 struct {
	Kind   string `json:"kind"`             // lambda | pass
	In     string `json:"in,omitempty"`     // lambda input type
	Out    string `json:"out,omitempty"`    // lambda output type
	Dyn    string `json:"dyn,omitempty"`    // dynamic type emitted when Out is an interface ("nil" allowed)
	Branch string `json:"branch,omitempty"` // "" or the condition's input type: the connection to the next node is a branch
	// Branch2 (only with Branch): a second branch on the same node with its own condition type; both choose the
	// next node.  B2First: it is added before the first one.
	// IK (pass nodes): added with WithInputKey("k"): its input must be a map[string]any, what flows on is the
	// value under the key (its type is whatever the neighbours fix; the value itself is checked at run time)
	IK      bool   `json:"ik,omitempty"`
	OK      bool   `json:"ok,omitempty"` // kind "sub": also WithOutputKey("o")
	Branch2 string `json:"branch2,omitempty"`
	B2First bool   `json:"b2first,omitempty"`
	PreH    string `json:"preh,omitempty"` // "" or the pre-handler's value type
	// Side (pass nodes whose incoming connection is a branch): a second predecessor.  The branch gets the
	// lambda s<i> (In -> Out, Out an interface type) as its other target and s<i> -> x<i> is an edge; when
	// Pick is set the branch chooses s<i>, so the pass-through node receives a dynamic value over an
	// interface-typed edge.
	Side *Side07 `json:"side,omitempty"`
}

type Side07 struct {
	In   string `json:"in"`
	Out  string `json:"out"`
	Dyn  string `json:"dyn"`
	Pick bool   `json:"pick"`
}

type CaseC07 struct {
	InT    string   `json:"int"`
	OutT   string   `json:"outt"`
	InDyn  string   `json:"indyn"` // dynamic type of the graph input when InT is an interface
	Nodes  []Node07 `json:"nodes"`
	Order  []int    `json:"order"`            // order in which the connections are added (permutation seed)
	Stream bool     `json:"stream"`           // call through Stream instead of Invoke
	StartB string   `json:"startb,omitempty"` // branch from START with this condition type
}

func genC07(t *rapid.T) CaseC07 {
	c := CaseC07{}
	ty := func(l string) string { return c07Types[rapid.IntRange(0, len(c07Types)-1).Draw(t, l)] }
	conc := func(l string) string { return c07Types[rapid.IntRange(0, c07Concrete-1).Draw(t, l)] }
	dynFor := func(l string) string {
		// any concrete type, or nil with low weight
		if rapid.IntRange(0, 11).Draw(t, "nilDyn") == 0 {
			return "nil"
		}
		return conc(l)
	}
	c.InT = ty("inT")
	c.InDyn = dynFor("inDyn")
	cur := c.InT
	k := rapid.IntRange(1, 6).Draw(t, "k")
	compat := func(from string) string {
		// a type that accepts `from`: itself, an interface it implements, or (for interfaces) an implementer
		switch rapid.IntRange(0, 5).Draw(t, "compat") {
		case 0:
			return "any"
		case 1:
			if from == "*A" {
				return "Stringer"
			}
			if from == "A" || from == "*A" {
				return "Iface"
			}
			return from
		case 2:
			if isIface(from) {
				return conc("impl")
			}
			return from
		case 3:
			// near miss: same underlying type, different defined type (not acceptable)
			if tw, ok := map[string]string{"map": "NMap", "NMap": "map", "[]string": "NSlice", "NSlice": "[]string"}[from]; ok && rapid.Bool().Draw(t, "nearMiss") {
				return tw
			}
			return from
		default:
			return from
		}
	}
	curBefore := make([]string, 0, k)
	for i := 0; i < k; i++ {
		n := Node07{}
		curBefore = append(curBefore, cur)
		if (cur == "map" || cur == "any") && rapid.IntRange(0, 3).Draw(t, "subGraph") == 0 || rapid.IntRange(0, 19).Draw(t, "subGraphAny") == 0 {
			n.Kind = "sub"
			n.OK = rapid.Bool().Draw(t, "subOutKey")
			cur = "string"
			if n.OK {
				cur = "map"
			}
		} else if rapid.IntRange(0, 3).Draw(t, "pass") == 0 {
			n.Kind = "pass"
			w := 9
			if cur == "map" || cur == "any" {
				w = 1
			}
			if rapid.IntRange(0, w).Draw(t, "inputKey") == 0 {
				n.IK = true
				cur = "any"
			}
		} else {
			n.Kind = "lambda"
			if rapid.IntRange(0, 9).Draw(t, "mismatch") < 2 {
				n.In = ty("in")
			} else {
				n.In = compat(cur)
			}
			n.Out = ty("out")
			n.Dyn = dynFor("dyn")
			cur = n.Out
			if rapid.IntRange(0, 7).Draw(t, "preh") == 0 {
				n.PreH = n.In
				if rapid.IntRange(0, 5).Draw(t, "prehBad") == 0 {
					n.PreH = ty("prehT")
				}
			}
		}
		if rapid.IntRange(0, 3).Draw(t, "branch") == 0 {
			if rapid.IntRange(0, 9).Draw(t, "branchBad") < 2 {
				n.Branch = ty("bt")
			} else {
				n.Branch = compat(cur)
			}
			if n.Kind != "sub" && rapid.IntRange(0, 2).Draw(t, "branch2") == 0 {
				n.Branch2 = compat(cur)
				if rapid.IntRange(0, 9).Draw(t, "branch2Bad") == 0 {
					n.Branch2 = ty("bt2")
				}
				n.B2First = rapid.Bool().Draw(t, "b2First")
			}
		}
		c.Nodes = append(c.Nodes, n)
	}
	if rapid.IntRange(0, 9).Draw(t, "endMismatch") < 2 {
		c.OutT = ty("outT")
	} else {
		c.OutT = compat(cur)
	}
	if rapid.IntRange(0, 5).Draw(t, "startBranch") == 0 {
		c.StartB = compat(c.InT)
	}
	nConn := k + 1
	for i := range c.Nodes {
		incoming := c.StartB
		if i > 0 {
			incoming = c.Nodes[i-1].Branch
		}
		if c.Nodes[i].Kind == "pass" && incoming != "" && rapid.IntRange(0, 1).Draw(t, "side") == 0 {
			ifaces := []string{"any", "any", "Stringer", "Iface"}
			c.Nodes[i].Side = &Side07{In: compat(curBefore[i]), Out: ifaces[rapid.IntRange(0, 3).Draw(t, "sideOut")], Dyn: dynFor("sideDyn"), Pick: rapid.IntRange(0, 3).Draw(t, "sidePick") > 0}
			nConn++
		}
	}
	for i := 0; i < nConn; i++ {
		c.Order = append(c.Order, rapid.IntRange(0, 1000).Draw(t, "ord"))
	}
	c.Stream = rapid.IntRange(0, 3).Draw(t, "stream") == 0
	return c
}

// compileTyped builds and compiles Graph[I,O] for the case; the returned invoke takes the input as any.
type run07 func(ctx context.Context, in any, stream bool) (any, error)

func build07[I, O any](c CaseC07) (run07, error) {
	g := compose.NewGraph[I, O](compose.WithGenLocalState(func(ctx context.Context) *c07State { return &c07State{} }))
	key := func(i int) string { return fmt.Sprintf("x%d", i) }
	for i, n := range c.Nodes {
		var opts []compose.GraphAddNodeOpt
		if n.PreH != "" {
			opts = append(opts, c07PreHandlers[n.PreH]())
		}
		var err error
		if n.Kind == "sub" {
			sub := compose.NewGraph[string, string]()
			_ = sub.AddLambdaNode("l", compose.InvokableLambda(func(ctx context.Context, x string) (string, error) { return "sub(" + x + ")", nil }))
			_ = sub.AddEdge(compose.START, "l")
			_ = sub.AddEdge("l", compose.END)
			so := []compose.GraphAddNodeOpt{compose.WithInputKey("k")}
			if n.OK {
				so = append(so, compose.WithOutputKey("o"))
			}
			err = g.AddGraphNode(key(i), sub, so...)
		} else if n.Kind == "pass" && n.IK {
			err = g.AddPassthroughNode(key(i), compose.WithInputKey("k"))
		} else if n.Kind == "pass" {
			err = g.AddPassthroughNode(key(i))
		} else {
			err = g.AddLambdaNode(key(i), c07Lambdas[n.In+">"+n.Out](key(i), n.Dyn), opts...)
		}
		if err != nil {
			return nil, err
		}
	}
	for i, n := range c.Nodes {
		if n.Side != nil {
			sk := fmt.Sprintf("s%d", i)
			if err := g.AddLambdaNode(sk, c07Lambdas[n.Side.In+">"+n.Side.Out](sk, n.Side.Dyn)); err != nil {
				return nil, err
			}
		}
	}
	// sink for the never-taken second branch target
	if err := g.AddLambdaNode("sink", c07Lambdas["any>string"]("sink", "")); err != nil {
		return nil, err
	}
	// connections: index 0 = START->x0, i = x(i-1)->x(i), k = x(k-1)->END, added in generated order
	k := len(c.Nodes)
	var sides []int // connection k+1+j is the edge s<sides[j]> -> x<sides[j]>
	for i, n := range c.Nodes {
		if n.Side != nil {
			sides = append(sides, i)
		}
	}
	idx := make([]int, k+1+len(sides))
	for i := range idx {
		idx[i] = i
	}
	// stable sort by the generated keys
	for i := 1; i < len(idx); i++ {
		for j := i; j > 0 && c.Order[idx[j]%len(c.Order)] < c.Order[idx[j-1]%len(c.Order)]; j-- {
			idx[j], idx[j-1] = idx[j-1], idx[j]
		}
	}
	for _, ci := range idx {
		if ci > k {
			i := sides[ci-k-1]
			if err := g.AddEdge(fmt.Sprintf("s%d", i), key(i)); err != nil {
				return nil, err
			}
			continue
		}
		from, to := compose.START, compose.END
		if ci > 0 {
			from = key(ci - 1)
		}
		if ci < k {
			to = key(ci)
		}
		bt := ""
		if ci == 0 {
			bt = c.StartB
		} else {
			bt = c.Nodes[ci-1].Branch
		}
		var err error
		bt2, b2first := "", false
		if ci > 0 && bt != "" {
			bt2, b2first = c.Nodes[ci-1].Branch2, c.Nodes[ci-1].B2First
		}
		addSecond := func() error {
			if ci < k && c.Nodes[ci].Side != nil {
				// both branches take the same decision (otherwise the pass-through node and the side lambda both run)
				sk := fmt.Sprintf("s%d", ci)
				pick := to
				if c.Nodes[ci].Side.Pick {
					pick = sk
				}
				return g.AddBranch(from, c07Branches[bt2](map[string]bool{to: true, sk: true}, pick))
			}
			return g.AddBranch(from, c07Branches[bt2](map[string]bool{to: true, "sink": true}, to))
		}
		if bt2 != "" && b2first {
			if err := addSecond(); err != nil {
				return nil, err
			}
		}
		if bt != "" && ci < k && c.Nodes[ci].Side != nil {
			sk := fmt.Sprintf("s%d", ci)
			pick := to
			if c.Nodes[ci].Side.Pick {
				pick = sk
			}
			err = g.AddBranch(from, c07Branches[bt](map[string]bool{to: true, sk: true}, pick))
		} else if bt != "" {
			err = g.AddBranch(from, c07Branches[bt](map[string]bool{to: true, "sink": true}, to))
		} else {
			err = g.AddEdge(from, to)
		}
		if err != nil {
			return nil, err
		}
		if bt2 != "" && !b2first {
			if err := addSecond(); err != nil {
				return nil, err
			}
		}
	}
	r, err := g.Compile(context.Background())
	if err != nil {
		return nil, err
	}
	return func(ctx context.Context, in any, stream bool) (any, error) {
		x, _ := in.(I)
		if stream {
			sr, err := r.Stream(ctx, x)
			if err != nil {
				return nil, err
			}
			defer sr.Close()
			var last any
			for {
				o, err := sr.Recv()
				if err != nil {
					if err.Error() == "EOF" {
						return last, nil
					}
					return nil, err
				}
				last = o
			}
		}
		o, err := r.Invoke(ctx, x)
		return o, err
	}, nil
}

var c07Builders = map[string]func(CaseC07) (run07, error){}

func regG[I, O any](in, out string) { c07Builders[in+">"+out] = build07[I, O] }
func regGIn[I any](in string) {
	regG[I, string](in, "string")
	regG[I, int](in, "int")
	regG[I, TA](in, "A")
	regG[I, *TA](in, "*A")
	regG[I, map[string]any](in, "map")
	regG[I, []string](in, "[]string")
	regG[I, NMap](in, "NMap")
	regG[I, NSlice](in, "NSlice")
	regG[I, any](in, "any")
	regG[I, fmt.Stringer](in, "Stringer")
	regG[I, Iface](in, "Iface")
}

func init() {
	regGIn[string]("string")
	regGIn[int]("int")
	regGIn[TA]("A")
	regGIn[*TA]("*A")
	regGIn[map[string]any]("map")
	regGIn[[]string]("[]string")
	regGIn[NMap]("NMap")
	regGIn[NSlice]("NSlice")
	regGIn[any]("any")
	regGIn[fmt.Stringer]("Stringer")
	regGIn[Iface]("Iface")
}

// assignable: would the value pass the hand-over to a position of type `to`?  This is type-assertion
// semantics (identical dynamic type, or an interface the dynamic type implements), which is narrower than
// Go assignability: a map[string]any value does not fit a position of a defined type with that underlying type.
func assignable(v any, to string) bool {
	if v == nil {
		return isIface(to)
	}
	tt := c07RT[to]
	if tt.Kind() == reflect.Interface {
		return reflect.TypeOf(v).Implements(tt)
	}
	return reflect.TypeOf(v) == tt
}

func checkC07(c CaseC07) (*vkit.Failure, vkit.Meta) {
	var m vkit.Meta
	if c.InT == "" || c07RT[c.InT] == nil || c07RT[c.OutT] == nil {
		return nil, m
	}
	for _, n := range c.Nodes {
		if n.Kind == "lambda" && (c07RT[n.In] == nil || c07RT[n.Out] == nil) {
			return nil, m
		}
	}
	f := vkit.Guard("panic-escaped", func() *vkit.Failure {
		build := c07Builders[c.InT+">"+c.OutT]
		run, err := build(c)
		if err != nil {
			m.Labels = append(m.Labels, "rejected-at-build")
			return nil
		}
		m.Labels = append(m.Labels, "compiled")
		// the dynamic input
		var in any
		if isIface(c.InT) {
			in = c07Value(c.InDyn)
			if c.InDyn != "nil" && !assignable(in, c.InT) {
				// not a value of the graph's input type: use an implementer
				in = &TA{V: "in"}
				if c.InT == "Iface" && false {
					in = TA{}
				}
			}
		} else {
			in = c07Value(c.InT)
		}
		// reference walk
		type pos struct {
			what     string // description of the consuming position
			declared string // declared type of the nearest typed producer upstream
			want     string // type required by the position
		}
		declared := c.InT
		producerOut := c.InT // output type of the nearest typed producer upstream (pass-through chains may carry it)
		val := in
		nilFlow := false
		var firstBad *pos
		hops := 0
		inferred := false
		mayEdgeOK, mayEdgeBad := false, false
		sideFed, sideAmbiguous := false, false
		twoBranches := false
		keyedPass := false
		keyMissing := false // the map reaching an input key does not have the key: an error in Invoke, an empty stream in Stream
		visit := func(p pos) {
			if firstBad != nil {
				return
			}
			if val == nil {
				nilFlow = true
			}
			ok := assignable(val, p.want)
			if isIface(p.declared) && !isIface(p.want) {
				if ok {
					mayEdgeOK = true
				} else {
					mayEdgeBad = true
				}
			}
			if !ok {
				pp := p
				firstBad = &pp
			}
		}
		if c.StartB != "" {
			visit(pos{"branch condition at START", declared, c.StartB})
		}
		for i, n := range c.Nodes {
			if n.Kind == "sub" {
				// a sub graph string -> string added with WithInputKey("k") (and WithOutputKey("o") when OK is set):
				// its declared input is map[string]any, what it works on is the value under the key
				visit(pos{fmt.Sprintf("input of the keyed sub graph x%d", i), declared, "map"})
				if firstBad == nil {
					mv, _ := val.(map[string]any)
					picked, has := mv["k"]
					if !has {
						keyMissing = true
					}
					if _, isStr := picked.(string); !has || !isStr {
						pp := pos{fmt.Sprintf("value under the input key of sub graph x%d", i), "any", "string"}
						firstBad = &pp
						keyedPass = true // consumer-side assertion: panic or error not judged
					} else {
						keyedPass = true
						if n.OK {
							declared, producerOut = "map", "map"
							val = map[string]any{"o": "sub(" + picked.(string) + ")"}
						} else {
							declared, producerOut = "string", "string"
							val = "sub(" + picked.(string) + ")"
						}
					}
				}
				hops = 0
				if n.Branch != "" {
					visit(pos{fmt.Sprintf("branch condition after x%d", i), declared, n.Branch})
				}
				continue
			}
			if n.Kind == "lambda" {
				if n.PreH != "" {
					visit(pos{fmt.Sprintf("state pre-handler of x%d", i), declared, n.PreH})
				}
				visit(pos{fmt.Sprintf("input of x%d", i), declared, n.In})
				if firstBad == nil {
					declared = n.Out
					producerOut = n.Out
					if isIface(n.Out) {
						val = c07Value(n.Dyn)
						if n.Dyn != "nil" && !assignable(val, n.Out) {
							val = nil // emit[] yields the zero interface value then
						}
					} else {
						val = c07Value(n.Out)
					}
				}
				hops = 0
			} else {
				hops++
				if hops >= 1 {
					inferred = true
				}
				if n.Side != nil && !n.Side.Pick && firstBad == nil {
					// the pass-through node may have taken the (interface) type of its other predecessor (order
					// dependent): downstream of it the declared type may be that interface
					if !assignable(val, n.Side.Out) {
						sideAmbiguous = true
					}
					declared = n.Side.Out
				}
				if n.Side != nil && n.Side.Pick && c07RT[n.Side.In] != nil && c07RT[n.Side.Out] != nil {
					// the branch chose the side lambda; its dynamic value then crosses an interface-typed edge into
					// the pass-through node, whose own type was inferred from whichever neighbour was connected first
					before := declared
					visit(pos{fmt.Sprintf("input of s%d", i), declared, n.Side.In})
					if firstBad == nil {
						sideFed = true
						declared = n.Side.Out
						val = c07Value(n.Side.Dyn)
						if n.Side.Dyn != "nil" && !assignable(val, n.Side.Out) {
							val = nil
						}
						if val == nil {
							nilFlow = true
						}
						cands := []string{before, producerOut}
						// an untyped pass-through node takes the type of the first branch condition added on it (interface
						// or concrete), and untyped successors inherit it: every condition type on the pass-through chain
						// in front of this node is a candidate too
						for j := i - 1; j >= 0 && c.Nodes[j].Kind == "pass"; j-- {
							cands = append(cands, c.Nodes[j].Branch, c.Nodes[j].Branch2)
						}
						if i > 0 && c.Nodes[i-1].Branch2 != "" {
							cands = append(cands, c.Nodes[i-1].Branch2)
						}
						incoming := c.StartB
						if i > 0 {
							incoming = c.Nodes[i-1].Branch
						}
						cands = append(cands, incoming)
						for j := i + 1; ; j++ {
							if j >= len(c.Nodes) {
								cands = append(cands, c.OutT)
								break
							}
							if c.Nodes[j].Kind == "lambda" {
								cands = append(cands, c.Nodes[j].In)
								break
							}
							if c.Nodes[j].Branch != "" {
								cands = append(cands, c.Nodes[j].Branch)
							}
						}
						if n.Branch != "" {
							cands = append(cands, n.Branch)
						}
						for _, cd := range cands {
							if cd != "" && !assignable(val, cd) {
								sideAmbiguous = true // whether the pass-through node carries this type depends on the Add* order
							}
						}
					}
				}
			}
			if n.Kind == "pass" && n.IK {
				visit(pos{fmt.Sprintf("input of the keyed pass-through x%d", i), declared, "map"})
				if firstBad == nil {
					mv, _ := val.(map[string]any)
					if _, has := mv["k"]; !has {
						keyMissing = true
					}
					val = mv["k"]
					declared = "any" // a value taken out of a map[string]any: checked dynamically from here on
					producerOut = "any"
					keyedPass = true
				}
			}
			if n.Branch != "" && n.Branch2 != "" {
				// a pass-through node that is still untyped takes the type of the branch condition added first: with
				// an interface-typed sibling branch the declared type in front of this condition may be that interface
				d2 := declared
				if n.Kind == "pass" && isIface(n.Branch) {
					d2 = n.Branch
				}
				visit(pos{fmt.Sprintf("second branch condition after x%d", i), d2, n.Branch2})
				twoBranches = true
			}
			if n.Branch != "" {
				d1 := declared
				if n.Kind == "pass" && isIface(n.Branch2) {
					d1 = n.Branch2
				}
				visit(pos{fmt.Sprintf("branch condition after x%d", i), d1, n.Branch})
				if n.Kind == "pass" && isIface(n.Branch2) {
					declared = n.Branch2
				}
				if n.Kind == "pass" && isIface(n.Branch) {
					// a pass-through node that is still untyped when the branch is added takes the condition's
					// type: downstream of it the declared type may be this interface (order dependent)
					declared = n.Branch
				}
			}
		}
		visit(pos{"graph output", declared, c.OutT})
		if nilFlow {
			m.Labels = append(m.Labels, "nil-interface-value-flows")
		}
		if keyMissing {
			m.Labels = append(m.Labels, "input-key-missing-skipped")
			return nil
		}
		rec := &c07Rec{got: map[string]string{}}
		ctx := context.WithValue(context.Background(), c07Key{}, rec)
		out, rerr := run(ctx, in, c.Stream)
		_ = out
		m.NonTrivial = inferred || (mayEdgeOK || mayEdgeBad)
		if mayEdgeOK {
			m.Labels = append(m.Labels, "may-assignable-edge-passing-value")
		}
		if mayEdgeBad {
			m.Labels = append(m.Labels, "may-assignable-edge-failing-value")
		}
		if inferred {
			m.Labels = append(m.Labels, "passthrough-typed-by-inference")
		}
		if nilFlow {
			// nil interface values: the framework's assertion input.(I) rejects them everywhere, which the
			// statement does not cover for interface-typed consumers; judged separately
			if rerr == nil && firstBad != nil {
				return vkit.Failf("mismatch-not-reported", "a nil value reached %s (needs %s) and the run succeeded", firstBad.what, firstBad.want)
			}
			if rerr != nil && firstBad == nil {
				return &vkit.Failure{Kind: "nil-interface-value-rejected", Sig: "nil-interface-value-rejected", Msg: fmt.Sprintf("a nil interface value flows only through interface-typed positions, yet the run failed: %s", shortErr(rerr))}
			}
			return nil
		}
		if sideFed {
			m.Labels = append(m.Labels, "passthrough-fed-over-interface-edge")
		}
		if twoBranches {
			m.Labels = append(m.Labels, "two-branches-on-one-node")
		}
		if keyedPass {
			m.Labels = append(m.Labels, "keyed-pass-through")
		}
		if firstBad == nil && sideAmbiguous {
			// the value fits everything downstream but not every type the pass-through node may have been given
			if rerr != nil && strings.Contains(rerr.Error(), "panic error") {
				return &vkit.Failure{Kind: "runtime-check-is-a-panic", Sig: "runtime-check-is-a-panic", Msg: fmt.Sprintf("a %T value entered an inferred pass-through node over an interface-typed edge and the run panicked: %s", val, shortErr(rerr))}
			}
			return nil
		}
		if firstBad == nil {
			if rerr != nil {
				sig := "assignable-value-rejected"
				return &vkit.Failure{Kind: sig, Sig: sig, Msg: fmt.Sprintf("every value is assignable to the position it reaches, yet the run failed: %s", shortErr(rerr))}
			}
			return nil
		}
		// a value is not assignable at firstBad
		if rerr == nil {
			return vkit.Failf("mismatch-not-reported", "a %T value reached %s (needs %s) and the run succeeded", val, firstBad.what, firstBad.want)
		}
		if !isIface(firstBad.declared) {
			return &vkit.Failure{Kind: "concrete-mismatch-accepted", Sig: "concrete-mismatch-accepted", Msg: fmt.Sprintf("the graph was accepted by Add*/Compile although %s needs %s and its producer is declared %s (both concrete); the run failed with: %s", firstBad.what, firstBad.want, firstBad.declared, shortErr(rerr))}
		}
		if strings.Contains(rerr.Error(), "panic error") && !keyedPass {
			// (a value taken out of a map by an input key is not an "interface-typed edge" in the sense of the statement:
			// its consumer's own assertion reports the mismatch, as a recovered panic; not judged)
			return &vkit.Failure{Kind: "runtime-check-is-a-panic", Sig: "runtime-check-is-a-panic", Msg: fmt.Sprintf("%s needs %s, producer declared %s holds %T: the mismatch surfaced through a recovered panic, not an ordinary error: %s", firstBad.what, firstBad.want, firstBad.declared, val, shortErr(rerr))}
		}
		return nil
	})
	if f != nil && f.Kind == "panic-escaped" {
		for _, l := range m.Labels {
			if l == "nil-interface-value-flows" {
				f.Sig = "nil-interface-value-rejected"
			}
		}
	}
	return f, m
}

func TestC07(t *testing.T) {
	rec := vkit.NewRecorder("C07")
	vkit.Prop(t, rec, genC07, checkC07)
}

func TestC07Replay(t *testing.T) {
	vkit.Replay(t, "C07", checkC07)
}
