package compose_test

// C09 (workflow field mappings): one compiled Workflow whose nodes take struct / pointer / map inputs assembled
// by field mappings, called from several goroutines at once with distinct inputs (Invoke and Stream mixed).
// Oracle: each call returns what it returns alone (the mapped fields of its own input); -race clean.

import (
	"context"
	"fmt"
	"sync"
	"testing"

	"github.com/cloudwego/eino/compose"
	"github.com/cloudwego/eino/internal/vkit"
	rapid "github.com/cloudwego/eino/internal/vrapid"
)

type wfIn09 struct {
	A string
	B string
	C string
}

type wfMid09 struct {
	X string
	Y string
	Z string
}

type CaseC09W struct {
	Target  string `json:"target"` // struct | ptr | map: input type of the mapped node
	Fields  int    `json:"fields"` // how many of A,B,C are mapped (1-3)
	OutS    bool   `json:"outs"`   // END assembles a struct from the node's map output
	Workers int    `json:"workers"`
	PerW    int    `json:"perw"`
	Stream  []bool `json:"stream"`
}

func genC09W(t *rapid.T) CaseC09W {
	c := CaseC09W{Target: []string{"struct", "struct", "ptr", "map"}[rapid.IntRange(0, 3).Draw(t, "target")], Fields: rapid.IntRange(1, 3).Draw(t, "fields"),
		OutS: rapid.Bool().Draw(t, "outS"), Workers: rapid.IntRange(2, 8).Draw(t, "workers"), PerW: rapid.IntRange(1, 4).Draw(t, "perW")}
	for i := 0; i < 4; i++ {
		c.Stream = append(c.Stream, rapid.IntRange(0, 3).Draw(t, "stream") == 0)
	}
	return c
}

func checkC09W(c CaseC09W) (*vkit.Failure, vkit.Meta) {
	var m vkit.Meta
	if c.Workers < 1 || c.PerW < 1 || c.Fields < 1 || len(c.Stream) == 0 {
		return nil, m
	}
	f := vkit.Guard("panic-escaped", func() *vkit.Failure {
		ctx := context.Background()
		wf := compose.NewWorkflow[wfIn09, map[string]any]()
		maps := []*compose.FieldMapping{compose.MapFields("A", "X"), compose.MapFields("B", "Y"), compose.MapFields("C", "Z")}[:c.Fields]
		render := func(x, y, z string) map[string]any { return map[string]any{"r": "x=" + x + ";y=" + y + ";z=" + z} }
		switch c.Target {
		case "struct":
			wf.AddLambdaNode("n", compose.InvokableLambda(func(ctx context.Context, in wfMid09) (map[string]any, error) {
				return render(in.X, in.Y, in.Z), nil
			})).AddInput(compose.START, maps...)
		case "ptr":
			wf.AddLambdaNode("n", compose.InvokableLambda(func(ctx context.Context, in *wfMid09) (map[string]any, error) {
				return render(in.X, in.Y, in.Z), nil
			})).AddInput(compose.START, maps...)
		default:
			wf.AddLambdaNode("n", compose.InvokableLambda(func(ctx context.Context, in map[string]any) (map[string]any, error) {
				s := func(k string) string { v, _ := in[k].(string); return v }
				return render(s("X"), s("Y"), s("Z")), nil
			})).AddInput(compose.START, maps...)
		}
		wf.End().AddInput("n")
		r, err := wf.Compile(ctx)
		if err != nil {
			return vkit.Failf("harness", "Compile: %v", err)
		}
		n := c.Workers * c.PerW
		gots := make([]string, n)
		errs := make([]error, n)
		start := make(chan struct{})
		var wg sync.WaitGroup
		for w := 0; w < c.Workers; w++ {
			wg.Add(1)
			go func(w int) {
				defer wg.Done()
				<-start
				for k := 0; k < c.PerW; k++ {
					i := w*c.PerW + k
					in := wfIn09{A: fmt.Sprintf("a%d", i), B: fmt.Sprintf("b%d", i), C: fmt.Sprintf("c%d", i)}
					func() {
						defer func() {
							if p := recover(); p != nil {
								errs[i] = fmt.Errorf("panic: %v", p)
							}
						}()
						var out map[string]any
						if c.Stream[i%len(c.Stream)] {
							sr, e := r.Stream(ctx, in)
							if e != nil {
								errs[i] = e
								return
							}
							defer sr.Close()
							for {
								ch, e := sr.Recv()
								if e != nil {
									if e.Error() != "EOF" {
										errs[i] = e
									}
									break
								}
								out = ch
							}
						} else {
							out, errs[i] = r.Invoke(ctx, in)
						}
						gots[i], _ = out["r"].(string)
					}()
				}
			}(w)
		}
		close(start)
		wg.Wait()
		for i := 0; i < n; i++ {
			vals := []string{fmt.Sprintf("a%d", i), fmt.Sprintf("b%d", i), fmt.Sprintf("c%d", i)}
			for k := c.Fields; k < 3; k++ {
				vals[k] = ""
			}
			want := "x=" + vals[0] + ";y=" + vals[1] + ";z=" + vals[2]
			if errs[i] != nil {
				return vkit.Failf("concurrent-outcome", "call %d of %d concurrent calls failed: %v (alone it returns %q)", i, n, errs[i], want)
			}
			if gots[i] != want {
				return &vkit.Failure{Kind: "concurrent-output", Sig: "mapped-input-crossed", Msg: fmt.Sprintf("call %d of %d concurrent calls: the node with a %s input assembled by field mappings answered %q, alone it answers %q", i, n, c.Target, gots[i], want)}
			}
		}
		m.NonTrivial = n >= 4
		m.Labels = append(m.Labels, "target:"+c.Target)
		return nil
	})
	return f, m
}

func TestC09Workflow(t *testing.T) {
	rec := vkit.NewRecorder("C09")
	vkit.Prop(t, rec, genC09W, checkC09W)
}

func TestC09WorkflowReplay(t *testing.T) {
	vkit.Replay(t, "C09", checkC09W)
}
