package compose_test

// C05 / C06: interrupt + resume histories.  One driver runs a generated history (graph with
// interrupt-before / interrupt-after sets at every nesting level and nodes that ask for
// interrupt-and-rerun; calls mixing Invoke and Stream; resumes on the same or a freshly compiled
// runnable; a store that only keeps bytes) until the run completes.
//   C05 oracle (metamorphic): final output, executed (node, input) multiset and final state equal
//        those of the same graph compiled without any interrupt configuration and run once.
//   C06 oracle (invariants over the history): licence-to-run for interrupt-before nodes, stop
//        after interrupt-after nodes, interrupt info extractable and complete, checkpoint written
//        exactly when an interrupt error is returned and an id was supplied.

import (
	"context"
	"encoding/json"
	"fmt"
	"os"
	"sort"
	"strings"
	"sync"
	"testing"

	"github.com/cloudwego/eino/compose"
	"github.com/cloudwego/eino/internal/gkit"
	"github.com/cloudwego/eino/internal/vkit"
	rapid "github.com/cloudwego/eino/internal/vrapid"
)

type CaseHist struct {
	Spec      *gkit.Spec `json:"spec"`
	Input     any        `json:"input"`
	Paradigms []string   `json:"paradigms"` // per call, cycled
	Fresh     []bool     `json:"fresh"`     // per resume, cycled: use a freshly compiled runnable
	NoID      bool       `json:"noid,omitempty"`
	Modifier  bool       `json:"modifier,omitempty"` // every resume carries a StateModifier (C11)
	// FailSet > 0 (C06): the FailSet-th write to the checkpoint store fails; the history ends with that call
	FailSet int `json:"failset,omitempty"`
}

// addInterrupts decorates a spec (recursively) with interrupt points and rerun nodes.
func addInterrupts(t *rapid.T, sp *gkit.Spec, weight int) {
	if sp.Mode != "chain" {
		for i := range sp.Nodes {
			n := &sp.Nodes[i]
			if rapid.IntRange(0, 99).Draw(t, "ib") < weight {
				sp.IntBefore = append(sp.IntBefore, n.Key)
			}
			if rapid.IntRange(0, 99).Draw(t, "ia") < weight {
				sp.IntAfter = append(sp.IntAfter, n.Key)
			}
			if sp.State && n.Kind == "lambda" && n.EffIn() == "S" && n.InputKey == "" && n.PreH == "" && rapid.IntRange(0, 99).Draw(t, "rerun") < 15 {
				n.PreH = "r"
				n.Rerun = rapid.IntRange(1, 2).Draw(t, "rerunN")
			}
		}
	}
	each := func(n *gkit.NodeSpec) {
		if n.Kind == "graph" {
			addInterrupts(t, n.Sub, weight)
		}
	}
	for i := range sp.Nodes {
		each(&sp.Nodes[i])
	}
	for si := range sp.Stages {
		for i := range sp.Stages[si].Nodes {
			each(&sp.Stages[si].Nodes[i])
		}
	}
}

func genHist(t *rapid.T) CaseHist {
	return genHistModes(t, []string{"pregel", "pregel", "dag", "workflow"}, true)
}

// genHistModes: histories over top-level graphs of the given modes (deep = the directed three-level scenario may be drawn).
func genHistModes(t *rapid.T, modes []string, deep bool) CaseHist {
	cfg := gkit.GenCfg{MaxNodes: 6, Depth: 2, Cycles: true, NoFailMix: true, State: true, PS: true,
		SubModes: []string{"pregel", "pregel", "dag", "workflow"}}
	if vkit.Thorough() {
		cfg.MaxNodes = 8
	}
	var c CaseHist
	if deep && rapid.IntRange(0, 5).Draw(t, "deepLoop") == 0 {
		// directed: three graph levels; the middle graph loops through the innermost graph node, and the
		// innermost graph (stateful or not) is interrupted inside
		inner := &gkit.Spec{Mode: "pregel", In: "S", Out: "S", State: rapid.Bool().Draw(t, "innerState"),
			Nodes: []gkit.NodeSpec{{Key: "a", Kind: "lambda", In: "S", Digest: true}, {Key: "b", Kind: "lambda", In: "S", Digest: true}},
			Edges: []gkit.Edge{{From: "start", To: "a"}, {From: "a", To: "b"}, {From: "b", To: "end"}}}
		if rapid.Bool().Draw(t, "sameKeys") {
			// the innermost graph uses the node keys of the middle graph (keys are per graph; a checkpoint of one
			// level must never be read by another)
			inner.Nodes[0].Key, inner.Nodes[1].Key = "g", "l"
			inner.Edges = []gkit.Edge{{From: "start", To: "g"}, {From: "g", To: "l"}, {From: "l", To: "end"}}
		}
		if inner.State {
			inner.Nodes[0].PS = rapid.Bool().Draw(t, "psA")
			inner.Nodes[1].PostH = []string{"", "v"}[rapid.IntRange(0, 1).Draw(t, "postB")]
		}
		mid := &gkit.Spec{Mode: "pregel", In: "S", Out: "S", State: rapid.Bool().Draw(t, "midState"),
			Nodes:    []gkit.NodeSpec{{Key: "g", Kind: "graph", In: "S", Sub: inner}, {Key: "l", Kind: "lambda", In: "S", Digest: true}},
			Edges:    []gkit.Edge{{From: "start", To: "g"}, {From: "g", To: "l"}},
			Branches: []gkit.Branch{{From: "l", Targets: []string{"end", "g"}, Salt: rapid.IntRange(0, 15).Draw(t, "loopSalt")}}}
		top := &gkit.Spec{Mode: "pregel", In: "S", Out: "S", State: rapid.Bool().Draw(t, "topState"),
			Nodes: []gkit.NodeSpec{{Key: "m", Kind: "graph", In: "S", Sub: mid}},
			Edges: []gkit.Edge{{From: "start", To: "m"}, {From: "m", To: "end"}}}
		c = CaseHist{Spec: top}
		c.Input = gkit.GenInput(t, "S")
		addInterrupts(t, c.Spec, 50)
		if len(inner.IntBefore)+len(inner.IntAfter) == 0 {
			inner.IntAfter = []string{inner.Nodes[0].Key}
		}
	} else {
		mode := modes[rapid.IntRange(0, len(modes)-1).Draw(t, "mode")]
		c = CaseHist{Spec: gkit.GenTop(t, mode, cfg)}
		c.Input = gkit.GenInput(t, c.Spec.In)
		addInterrupts(t, c.Spec, rapid.SampledFrom([]int{10, 25, 25, 50}).Draw(t, "intWeight"))
	}
	// some nested graphs of graphs / workflows are run from inside a lambda node instead of being added as graph nodes
	var viaLambda func(sp *gkit.Spec)
	viaLambda = func(sp *gkit.Spec) {
		for i := range sp.Nodes {
			n := &sp.Nodes[i]
			if n.Kind != "graph" || n.Sub == nil {
				continue
			}
			if sp.Mode != "chain" && rapid.IntRange(0, 3).Draw(t, "viaLambda") == 0 {
				n.ViaLambda = true
			}
			viaLambda(n.Sub)
		}
	}
	viaLambda(c.Spec)
	n := rapid.IntRange(1, 4).Draw(t, "nPar")
	for i := 0; i < n; i++ {
		c.Paradigms = append(c.Paradigms, []string{"invoke", "invoke", "stream"}[rapid.IntRange(0, 2).Draw(t, "par")])
	}
	n = rapid.IntRange(1, 3).Draw(t, "nFresh")
	for i := 0; i < n; i++ {
		c.Fresh = append(c.Fresh, rapid.Bool().Draw(t, "fresh"))
	}
	c.NoID = rapid.IntRange(0, 11).Draw(t, "noID") == 0
	return c
}

func cloneSpec(sp *gkit.Spec) *gkit.Spec {
	b, _ := json.Marshal(sp)
	var out gkit.Spec
	_ = json.Unmarshal(b, &out)
	return &out
}

func stripInterrupts(sp *gkit.Spec) {
	sp.IntBefore, sp.IntAfter = nil, nil
	each := func(n *gkit.NodeSpec) {
		n.Rerun = 0
		if n.Kind == "graph" && n.Sub != nil {
			stripInterrupts(n.Sub)
		}
	}
	for i := range sp.Nodes {
		each(&sp.Nodes[i])
	}
	for si := range sp.Stages {
		for i := range sp.Stages[si].Nodes {
			each(&sp.Stages[si].Nodes[i])
		}
	}
}

type callRec struct {
	Idx         int
	Paradigm    string
	Fresh       bool
	Err         error
	Interrupted bool
	Info        *compose.InterruptInfo
	Out         any
	Sets        int
	SetFailed   bool // the store refused a write during this call (injected fault)
}

type histRun struct {
	calls    []callRec
	env      *gkit.CallEnv
	finished bool
	finalOut any
	runner   *gkit.Runner // the runnable of the last call
	lastOpts []compose.Option
	lastCase CaseGraph
}

const maxHistCalls = 80

// filterOptional drops the executions of nodes that do not lead to END (they may or may not have run).
func filterOptional(es []gkit.Exec, ref *gkit.RefResult) []gkit.Exec {
	opt := map[gkit.Exec]bool{}
	for _, e := range ref.Optional {
		opt[e] = true
	}
	var out []gkit.Exec
	for _, e := range es {
		if !opt[e] {
			out = append(out, e)
		}
	}
	return out
}

func runHistory(c CaseHist) (*histRun, *vkit.Failure) {
	ctx := context.Background()
	store := gkit.NewByteStore()
	callIdx := 0
	store.Call = &callIdx
	store.FailSet = c.FailSet
	bo := &gkit.BuildOpts{Store: store}
	r, err := gkit.Compile(ctx, c.Spec, bo)
	if err != nil {
		return nil, vkit.Failf("compile-rejected-wellformed-graph", "Compile failed on a well-typed generated graph: %v", err)
	}
	env := gkit.NewEnv("hist")
	env.MaxRunsPerNode = 600
	h := &histRun{env: env}
	in := fixInput(c.Spec, c.Input)
	for callIdx = 0; callIdx < maxHistCalls; callIdx++ {
		env.SetCall(callIdx)
		rec := callRec{Idx: callIdx, Paradigm: c.Paradigms[callIdx%len(c.Paradigms)]}
		if callIdx > 0 && c.Fresh[(callIdx-1)%len(c.Fresh)] {
			rec.Fresh = true
			r, err = gkit.Compile(ctx, c.Spec, bo)
			if err != nil {
				return nil, vkit.Failf("compile-rejected-wellformed-graph", "re-Compile failed: %v", err)
			}
		}
		var opts []compose.Option
		if !c.NoID {
			opts = append(opts, compose.WithCheckPointID("h1"))
		}
		if c.Modifier && callIdx > 0 {
			opts = append(opts, compose.WithStateModifier(func(ctx context.Context, path compose.NodePath, state any) error {
				if st, ok := state.(*gkit.GState); ok && st != nil {
					env.StateMu.Lock()
					if st.Count == nil {
						st.Count = map[string]int{}
					}
					st.Count["mod:"+strings.Join(path.GetPath(), "/")]++
					env.StateMu.Unlock()
				}
				return nil
			}))
		}
		cg := CaseGraph{Spec: c.Spec, Input: in, Paradigm: rec.Paradigm}
		out, rerr := runSpec(gkit.WithCall(ctx, callIdx), r, env, cg, opts...)
		h.runner, h.lastOpts, h.lastCase = r, opts, cg
		rec.Err = rerr
		rec.Out = out
		rec.Sets = store.SetsInCall(callIdx)
		rec.SetFailed = store.FailedInCall(callIdx) > 0
		if rerr != nil {
			if info, ok := compose.ExtractInterruptInfo(rerr); ok {
				rec.Interrupted = true
				rec.Info = info
			}
		}
		h.calls = append(h.calls, rec)
		if rec.SetFailed {
			break // the checkpoint of this call does not exist: nothing to resume
		}
		if rerr == nil {
			h.finished = true
			h.finalOut = out
			break
		}
		if !rec.Interrupted || c.NoID {
			break
		}
	}
	return h, nil
}

// infoAt walks the nested interrupt info along a path of graph node keys.
func infoAt(info *compose.InterruptInfo, path []string) *compose.InterruptInfo {
	cur := info
	for _, p := range path {
		if cur == nil || cur.SubGraphs == nil {
			return nil
		}
		cur = cur.SubGraphs[p]
	}
	return cur
}

// containsValue: does the canonical input contain the canonical output out as a whole value?  Outputs start
// with the node's tag ("n2(...)"), and the output of a nested node of the same key ("n0/n2(...)") contains that
// text too: an occurrence preceded by '/' or a key character belongs to another node's output.
func containsValue(in, out string) bool {
	for from := 0; ; {
		i := strings.Index(in[from:], out)
		if i < 0 {
			return false
		}
		i += from
		if i == 0 {
			return true
		}
		c := in[i-1]
		if !(c == '/' || (c >= 'a' && c <= 'z') || (c >= 'A' && c <= 'Z') || (c >= '0' && c <= '9')) {
			return true
		}
		from = i + 1
	}
}

func splitTag(tag string) ([]string, string) {
	parts := strings.Split(tag, "/")
	return parts[:len(parts)-1], parts[len(parts)-1]
}

func specAt(sp *gkit.Spec, path []string) *gkit.Spec {
	cur := sp
	for _, p := range path {
		if cur == nil {
			return nil
		}
		n := cur.Node(p)
		if n == nil || n.Sub == nil {
			return nil
		}
		cur = n.Sub
	}
	return cur
}

func contains(xs []string, x string) bool {
	for _, y := range xs {
		if x == y {
			return true
		}
	}
	return false
}

type histFacts struct {
	interrupts, nestedInterrupts, rerunAborts, streamCalls, freshResumes int
	beforeAtStart, beforeHonoured, afterHonoured                         bool
	loopThroughInterrupt                                                 bool
}

// checkHistory runs the history once and evaluates the oracles of C05 (which == "C05") or C06.
func checkHistory(c CaseHist, which string) (*vkit.Failure, vkit.Meta) {
	var m vkit.Meta
	if c.Spec == nil || len(c.Paradigms) == 0 || len(c.Fresh) == 0 {
		return nil, m
	}
	f := vkit.Guard("panic-escaped", func() *vkit.Failure {
		in := fixInput(c.Spec, c.Input)
		base := cloneSpec(c.Spec)
		stripInterrupts(base)
		ref := gkit.Ref(base, "", in, gkit.RefOpts{})
		m.Labels = append(m.Labels, "mode:"+c.Spec.Mode, "ref:"+refClass(ref))
		if ref.Fail != "" || ref.Ambiguous {
			m.Labels = append(m.Labels, "baseline-does-not-complete-skipped")
			return nil
		}
		// the uninterrupted run (same code, no interrupt configuration)
		ctx := context.Background()
		br, err := gkit.Compile(ctx, base, nil)
		if err != nil {
			return vkit.Failf("compile-rejected-wellformed-graph", "Compile failed on a well-typed generated graph: %v", err)
		}
		benv := gkit.NewEnv("base")
		benv.MaxRunsPerNode = 600
		bout, berr := runSpec(ctx, br, benv, CaseGraph{Spec: base, Input: in, Paradigm: "invoke"})
		if berr != nil {
			m.Labels = append(m.Labels, "baseline-run-fails-skipped")
			return nil
		}
		h, fl := runHistory(c)
		if fl != nil {
			return fl
		}
		var facts histFacts
		for _, cr := range h.calls {
			if cr.Interrupted {
				facts.interrupts++
				if cr.Info != nil && len(cr.Info.SubGraphs) > 0 {
					facts.nestedInterrupts++
				}
			}
			if cr.Paradigm == "stream" {
				facts.streamCalls++
			}
			if cr.Fresh {
				facts.freshResumes++
			}
		}
		events := h.env.EventsCopy()
		for _, ev := range events {
			if ev.Phase == "abort" {
				facts.rerunAborts++
			}
		}
		defer func() {
			m.Labels = append(m.Labels, fmt.Sprintf("interrupts:%s", bucket(facts.interrupts)))
			if facts.nestedInterrupts > 0 {
				m.Labels = append(m.Labels, "nested-interrupt")
			}
			if facts.rerunAborts > 0 {
				m.Labels = append(m.Labels, "rerun-node")
			}
			if facts.streamCalls > 0 && facts.streamCalls < len(h.calls) {
				m.Labels = append(m.Labels, "mixed-paradigms")
			}
			if facts.freshResumes > 0 {
				m.Labels = append(m.Labels, "fresh-compile-resume")
			}
			if facts.beforeAtStart {
				m.Labels = append(m.Labels, "before-node-at-START")
			}
			if c.NoID {
				m.Labels = append(m.Labels, "no-checkpoint-id")
			}
			if facts.loopThroughInterrupt {
				m.Labels = append(m.Labels, "loop-through-interrupted-node")
			}
			if which == "C05" {
				m.NonTrivial = facts.interrupts >= 2 && (facts.nestedInterrupts > 0 || facts.rerunAborts > 0 || (facts.streamCalls > 0 && facts.streamCalls < len(h.calls)) || facts.loopThroughInterrupt || ref.FanInSameStep)
			} else {
				m.NonTrivial = facts.interrupts >= 1 && (facts.beforeHonoured || facts.afterHonoured) && (facts.beforeAtStart || facts.nestedInterrupts > 0 || c.Spec.Mode == "workflow" || len(c.Spec.Branches) > 0)
			}
		}()

		// ---------------- C06: invariants over the history ----------------
		c06 := func() *vkit.Failure {
			for _, cr := range h.calls {
				if cr.SetFailed {
					// the checkpoint could not be written: "a checkpoint is written under [the id] exactly when such an
					// error is returned" - so no interrupt error may be returned, the call reports the store's failure
					m.Labels = append(m.Labels, "checkpoint-store-write-fails")
					if cr.Interrupted {
						return vkit.Failf("interrupt-returned-without-checkpoint", "call %d returned an interrupt error although the write of its checkpoint failed (nothing is stored under the id)", cr.Idx)
					}
					if cr.Err == nil {
						return vkit.Failf("interrupt-returned-without-checkpoint", "call %d returned a result although it had to interrupt and the write of its checkpoint failed", cr.Idx)
					}
					return nil
				}
				if cr.Err != nil && !cr.Interrupted {
					// No node fails (the uninterrupted run succeeds), so a run that ends early was stopped by an
					// interrupt: when the stopped call itself made progress (or is the first call) the interrupt
					// was due in this call and has been replaced by an error from which no interrupt information
					// can be extracted.  (A resumed call failing before any node ran is C05's business.)
					progressed := cr.Idx == 0
					for _, ev := range events {
						if ev.Call == cr.Idx && ev.Phase == "start" {
							progressed = true
						}
					}
					es := cr.Err.Error()
					if facts.streamCalls > 0 && hasMappedEdge(c.Spec) && (strings.Contains(es, "cannot convert sr to streamReader[") || strings.Contains(es, "] to streamReader[")) {
						m.Labels = append(m.Labels, "known-C05-finding-not-judged-here")
						return nil
					}
					if progressed && len(filterOptional(h.env.Execs(), ref)) < len(filterOptional(benv.Execs(), ref)) {
						return &vkit.Failure{Kind: "interrupt-replaced-by-error", Sig: "interrupt-replaced-by-error", Msg: fmt.Sprintf("call %d (%s) stopped before the run was complete although no node fails, so an interrupt was due; it returned an error that is not an interrupt: %s", cr.Idx, cr.Paradigm, shortErr(cr.Err))}
					}
					return nil
				}
				if cr.Interrupted {
					if cr.Info == nil {
						return vkit.Failf("interrupt-info-missing", "call %d returned an interrupt error without info", cr.Idx)
					}
					if c.Spec.State && cr.Info.State == nil {
						return vkit.Failf("interrupt-info-state-missing", "call %d: graph has state but InterruptInfo.State is nil", cr.Idx)
					}
					wantSets := 1
					if c.NoID {
						wantSets = 0
					}
					if cr.Sets != wantSets {
						return vkit.Failf("checkpoint-write-count", "call %d returned an interrupt (id supplied: %v) and wrote %d checkpoints", cr.Idx, !c.NoID, cr.Sets)
					}
				} else if cr.Sets != 0 {
					return vkit.Failf("checkpoint-written-without-interrupt", "call %d finished without interrupt but wrote %d checkpoints", cr.Idx, cr.Sets)
				}
			}
			// licences: interrupt infos listing a node (before or rerun) at its nesting level, per call
			licences := map[string]int{}
			starts := map[string]int{}
			lastCall := -1
			grant := func(upto int) {
				for lastCall < upto-1 {
					lastCall++
					if lastCall >= len(h.calls) {
						return
					}
					cr := h.calls[lastCall]
					if !cr.Interrupted {
						continue
					}
					var walk func(info *compose.InterruptInfo, prefix string)
					walk = func(info *compose.InterruptInfo, prefix string) {
						if info == nil {
							return
						}
						for _, n := range info.BeforeNodes {
							licences[prefix+n]++
						}
						for _, n := range info.RerunNodes {
							licences[prefix+n]++
						}
						for k, sub := range info.SubGraphs {
							walk(sub, prefix+k+"/")
						}
					}
					walk(cr.Info, "")
				}
			}
			for i, ev := range events {
				path, key := splitTag(ev.Node)
				sp := specAt(c.Spec, path)
				if sp == nil {
					continue
				}
				switch ev.Phase {
				case "start":
					if !contains(sp.IntBefore, key) {
						continue
					}
					grant(ev.Call) // interrupts of calls before this one
					starts[ev.Node]++
					if ev.Call == 0 {
						for _, e := range sp.Edges {
							if e.From == gkit.Start && e.To == key {
								facts.beforeAtStart = true
							}
						}
						for _, b := range sp.Branches {
							if b.From == gkit.Start && contains(b.Targets, key) {
								facts.beforeAtStart = true
							}
						}
					}
					if starts[ev.Node] > licences[ev.Node] {
						return &vkit.Failure{Kind: "before-node-ran-without-interrupt", Sig: "before-node-ran-without-interrupt",
							Msg: fmt.Sprintf("node %s is configured interrupt-before; execution #%d started in call %d but only %d earlier interrupts reported it", ev.Node, starts[ev.Node], ev.Call, licences[ev.Node])}
					}
					facts.beforeHonoured = true
				case "end":
					if !contains(sp.IntAfter, key) {
						continue
					}
					cr := h.calls[ev.Call]
					if !cr.Interrupted {
						continue // the run finished in this call
					}
					info := infoAt(cr.Info, path)
					if info == nil && len(path) > 0 {
						// the nested run this node belongs to was not interrupted in this call: it finished with
						// this node (the interrupt came from an enclosing graph)
						info = &compose.InterruptInfo{AfterNodes: []string{key}}
					}
					if len(path) > 0 && (info == nil || !contains(info.AfterNodes, key)) {
						// the nested run may have finished with this node and the enclosing graph moved on (the
						// same graph node can run again later in this call and be interrupted for another reason)
						for _, later := range events[i+1:] {
							if later.Call != ev.Call {
								break
							}
							lp, lk := splitTag(later.Node)
							if len(lp) < len(path) && strings.HasPrefix(strings.Join(path, "/")+"/", strings.Join(lp, "/")+slashIf(lp)) {
								info = &compose.InterruptInfo{AfterNodes: []string{key}}
								break
							}
							if later.Phase == "start" && strings.Join(lp, "/") == strings.Join(path, "/") {
								// a node entered from START starts again in this nested graph: a new execution of the graph
								// node, so the one this event belongs to has finished (the report describes the new one)
								fromStart := false
								for _, e := range sp.Edges {
									if e.From == gkit.Start && e.To == lk {
										fromStart = true
									}
								}
								for _, br := range sp.Branches {
									if br.From == gkit.Start && contains(br.Targets, lk) {
										fromStart = true
									}
								}
								if fromStart {
									info = &compose.InterruptInfo{AfterNodes: []string{key}}
									break
								}
							}
						}
					}
					if len(path) > 0 && info != nil && !contains(info.AfterNodes, key) {
						// the graph node can run again later in the same call; an interrupt of that new nested
						// execution right at its beginning (a successor of START reported as interrupt-before) says
						// nothing about the earlier, completed nested execution this event belongs to
						for _, b := range info.BeforeNodes {
							for _, e := range sp.Edges {
								if e.From == gkit.Start && e.To == b {
									info = &compose.InterruptInfo{AfterNodes: []string{key}}
								}
							}
							for _, br := range sp.Branches {
								if br.From == gkit.Start && contains(br.Targets, b) {
									info = &compose.InterruptInfo{AfterNodes: []string{key}}
								}
							}
						}
					}
					if len(path) > 0 && info != nil && !contains(info.AfterNodes, key) && len(info.AfterNodes) == 0 {
						// the nested run may have finished with this node (it leads to END) and the graph node was
						// started again and interrupted before any body of the new execution ran (e.g. an
						// interrupt-before two levels down): nothing after this event at or below this path
						toEnd := false
						for _, e := range sp.Edges {
							if e.From == key && e.To == gkit.End {
								toEnd = true
							}
						}
						for _, br := range sp.Branches {
							if br.From == key && contains(br.Targets, gkit.End) {
								toEnd = true
							}
						}
						quiet := true
						prefix := strings.Join(path, "/") + "/"
						for _, later := range events[i+1:] {
							if later.Call != ev.Call {
								break
							}
							if strings.HasPrefix(later.Node, prefix) {
								quiet = false
							}
						}
						if toEnd && quiet && (len(info.BeforeNodes) > 0 || len(info.SubGraphs) > 0) {
							info = &compose.InterruptInfo{AfterNodes: []string{key}}
						}
					}
					if len(path) > 0 && ref.IsOptionalTag(ev.Node) {
						continue // may complete after its nested run returned
					}
					if info == nil || !contains(info.AfterNodes, key) {
						return &vkit.Failure{Kind: "after-node-not-reported", Sig: "after-node-not-reported",
							Msg: fmt.Sprintf("node %s (interrupt-after) completed in call %d, which was interrupted, but the interrupt info at %v does not list it under AfterNodes", ev.Node, ev.Call, path)}
					}
					// nothing that consumed this output may start later in the same call.  When the node produced
					// the very same output before (loop over constant values) a parallel consumer of the older
					// output cannot be told apart: the rule is not applied then.
					seenBefore := false
					for _, earlier := range events[:i] {
						if earlier.Phase == "end" && earlier.Node == ev.Node && earlier.Out == ev.Out {
							seenBefore = true
						}
					}
					if len(ev.Out) >= 4 && !seenBefore {
						for _, later := range events[i+1:] {
							if later.Call != ev.Call {
								break
							}
							lp, _ := splitTag(later.Node)
							if strings.Join(lp, "/") != strings.Join(path, "/") {
								continue // another graph level: the nested run may have finished with this node
							}
							if len(path) > 0 && later.Phase == "start" {
								// inside a graph node: a node entered from START may belong to a new execution of the
								// enclosing graph node (whose input can contain this very output, e.g. a self loop of the
								// graph node); the events cannot tell the two apart
								_, lk := splitTag(later.Node)
								fromStart := false
								for _, e := range sp.Edges {
									if e.From == gkit.Start && e.To == lk {
										fromStart = true
									}
								}
								for _, br := range sp.Branches {
									if br.From == gkit.Start && contains(br.Targets, lk) {
										fromStart = true
									}
								}
								if fromStart {
									break
								}
							}
							if later.Phase == "start" && later.Node != ev.Node && containsValue(later.In, ev.Out) {
								return &vkit.Failure{Kind: "successor-ran-after-interrupt-after", Sig: "successor-ran-after-interrupt-after",
									Msg: fmt.Sprintf("node %s (interrupt-after) completed in call %d and %s started afterwards in the same call on input %q", ev.Node, ev.Call, later.Node, vkit.Short(later.In, 120))}
							}
						}
					}
					facts.afterHonoured = true
				case "abort":
					cr := h.calls[ev.Call]
					if ref.IsOptionalTag(ev.Node) {
						continue // a node that does not lead to END may still be running when its (nested) run returns
					}
					if !cr.Interrupted {
						return vkit.Failf("rerun-request-ignored", "node %s asked for interrupt-and-rerun in call %d but the call did not return an interrupt (err=%v)", ev.Node, ev.Call, shortErr(cr.Err))
					}
					info := infoAt(cr.Info, path)
					if info == nil || !contains(info.RerunNodes, key) {
						return vkit.Failf("rerun-node-not-reported", "node %s asked for interrupt-and-rerun in call %d but is not listed under RerunNodes at %v", ev.Node, ev.Call, path)
					}
				}
			}
			return nil
		}

		// ---------------- C05: equivalence with the uninterrupted run ----------------
		c05 := func() *vkit.Failure {
			last := h.calls[len(h.calls)-1]
			if c.NoID || last.SetFailed {
				return nil // nothing to resume
			}
			if c.Modifier && c.Spec.State {
				// every resume applied the caller's modifier once; the edits must be in every later checkpoint
				for _, cr := range h.calls {
					if !cr.Interrupted || cr.Info == nil {
						continue
					}
					st, ok := cr.Info.State.(*gkit.GState)
					if !ok || st == nil {
						return vkit.Failf("state-modifier-edits", "call %d: interrupt info carries no state of the expected type (%T)", cr.Idx, cr.Info.State)
					}
					if got := h.env.CountsOf(st)["mod:"]; got != cr.Idx {
						return &vkit.Failure{Kind: "state-modifier-edits", Sig: "state-modifier-edits", Msg: fmt.Sprintf("call %d was preceded by %d resumes, each with a StateModifier that counts itself in the state; the state reported at this interrupt records %d applications", cr.Idx, cr.Idx, got)}
					}
				}
			}
			if !h.finished {
				if last.Interrupted {
					return vkit.Failf("history-does-not-complete", "still interrupted after %d calls (uninterrupted run takes %d node executions)", len(h.calls), len(benv.Execs()))
				}
				sig := "resumed-run-fails"
				es := last.Err.Error()
				if facts.streamCalls > 0 && hasMappedEdge(c.Spec) && (strings.Contains(es, "cannot convert sr to streamReader[") || strings.Contains(es, "] to streamReader[")) {
					sig = "wf-mapped-value-parked-stream-checkpoint"
				}
				return &vkit.Failure{Kind: "resumed-run-fails", Sig: sig, Msg: fmt.Sprintf("call %d (%s, fresh=%v) failed although the uninterrupted run succeeds: %s", last.Idx, last.Paradigm, last.Fresh, shortErr(last.Err))}
			}
			if gkit.Canon(h.finalOut) != gkit.Canon(bout) {
				return &vkit.Failure{Kind: "resume-output-differs", Sig: "resume-output-differs", Msg: fmt.Sprintf("after %d interrupts the final output is %q, the uninterrupted run gives %q", facts.interrupts, vkit.Short(gkit.Canon(h.finalOut), 300), vkit.Short(gkit.Canon(bout), 300))}
			}
			filter := func(es []gkit.Exec) []gkit.Exec {
				if len(ref.Optional) == 0 {
					return es
				}
				opt := map[gkit.Exec]bool{}
				for _, e := range ref.Optional {
					opt[e] = true
				}
				var out []gkit.Exec
				for _, e := range es {
					if !opt[e] {
						out = append(out, e)
					}
				}
				return out
			}
			if d := gkit.DiffExecs(filter(h.env.Execs()), filter(benv.Execs())); d != "" {
				return &vkit.Failure{Kind: "resume-executions-differ", Sig: "resume-executions-differ", Msg: "across all calls vs. uninterrupted run: " + d}
			}
			if c.Spec.Mode == "pregel" && facts.streamCalls == 0 && len(ref.Optional) == 0 {
				if d := gkit.DiffExecSeq(h.env.Execs(), benv.Execs()); d != "" {
					return &vkit.Failure{Kind: "resume-execution-order-differs", Sig: "resume-execution-order-differs", Msg: d}
				}
			}
			// state carried across interrupts: same counters as the uninterrupted run (the pre-handler of
			// a rerun node runs once more per aborted attempt)
			hOwned := h.env.OwnedStates(c.Spec)
			for gp, bst := range benv.OwnedStates(base) {
				if gp != "" && ref.IsOptionalTag(strings.TrimSuffix(gp, "/")) {
					continue // a graph that does not lead to END may not have (finished) running when the run returns
				}
				if gp != "" && ref.NodeRuns[strings.TrimSuffix(gp, "/")] != 1 {
					// a graph node that executes several times gets a fresh state each time; which execution's state
					// object was observed last is not the same in both runs
					continue
				}
				hst := hOwned[gp]
				if hst == nil {
					hst = &gkit.GState{} // never observed: equal only if nothing (non-optional) was counted
				}
				bc, hc := benv.CountsOf(bst), h.env.CountsOf(hst)
				for _, mm := range []map[string]int{bc, hc} {
					// nodes that do not lead to END may or may not have run (or finished) when the run returns
					for k := range mm {
						if i := strings.IndexByte(k, ':'); i >= 0 && ref.IsOptionalTag(k[i+1:]) {
							delete(mm, k)
						}
					}
				}
				for _, ev := range events {
					if ev.Phase == "abort" {
						p, _ := splitTag(ev.Node)
						if strings.Join(p, "/")+slashIf(p) == gp {
							delete(bc, "pre:"+ev.Node)
							delete(hc, "pre:"+ev.Node)
						}
					}
				}
				mods := map[string]int{}
				for k, v := range hc {
					if strings.HasPrefix(k, "mod:") {
						mods[k] = v
						delete(hc, k)
					}
				}
				for k := range mods {
					// a caller-supplied modification is applied to the state of the graph whose path it was called with
					if want := "mod:" + strings.TrimSuffix(gp, "/"); k != want {
						return &vkit.Failure{Kind: "state-modifier-wrong-path", Sig: "state-modifier-wrong-path", Msg: fmt.Sprintf("the state of graph %q records a StateModifier call made with path %q", gp, strings.TrimPrefix(k, "mod:"))}
					}
				}
				if fmt.Sprint(sortedMap(bc)) != fmt.Sprint(sortedMap(hc)) {
					return &vkit.Failure{Kind: "resume-state-differs", Sig: "resume-state-differs", Msg: fmt.Sprintf("state counters of graph %q after the interrupted history: %v, uninterrupted: %v", gp, sortedMap(hc), sortedMap(bc))}
				}
			}
			return nil
		}
		// label: a node executed >= 2 times that is itself an interrupt point
		runs := map[string]int{}
		for _, ev := range events {
			if ev.Phase == "start" {
				runs[ev.Node]++
			}
		}
		for tag, cnt := range runs {
			p, k := splitTag(tag)
			if sp := specAt(c.Spec, p); sp != nil && cnt >= 2 && (contains(sp.IntBefore, k) || contains(sp.IntAfter, k) || len(p) > 0) && facts.interrupts > 0 {
				facts.loopThroughInterrupt = true
			}
		}
		f06 := c06() // always evaluated: it also fills the facts used for labels
		if which == "C06" {
			return f06
		}
		return c05()
	})
	return f, m
}

func hasMappedEdge(sp *gkit.Spec) bool {
	for _, e := range sp.Edges {
		if e.ToKey != "" {
			return true
		}
	}
	for i := range sp.Nodes {
		if sp.Nodes[i].Kind == "graph" && sp.Nodes[i].Sub != nil && hasMappedEdge(sp.Nodes[i].Sub) {
			return true
		}
	}
	return false
}

func pathLen(gp string) int {
	if gp == "" {
		return 0
	}
	return strings.Count(gp, "/")
}

func slashIf(p []string) string {
	if len(p) > 0 {
		return "/"
	}
	return ""
}

func sortedMap(m map[string]int) []string {
	var out []string
	for k, v := range m {
		out = append(out, fmt.Sprintf("%s=%d", k, v))
	}
	sort.Strings(out)
	return out
}

func bucket(n int) string {
	switch {
	case n == 0:
		return "0"
	case n == 1:
		return "1"
	case n <= 3:
		return "2-3"
	case n <= 8:
		return "4-8"
	}
	return ">8"
}

func TestC05(t *testing.T) {
	rec := vkit.NewRecorder("C05")
	vkit.Prop(t, rec, genHist, func(c CaseHist) (*vkit.Failure, vkit.Meta) { return checkHistory(c, "C05") })
}

func TestC05Replay(t *testing.T) {
	vkit.Replay(t, "C05", func(c CaseHist) (*vkit.Failure, vkit.Meta) { return checkHistory(c, "C05") })
}

func genHistC06(t *rapid.T) CaseHist {
	c := genHist(t)
	if !c.NoID && rapid.IntRange(0, 5).Draw(t, "failSet") == 0 {
		c.FailSet = rapid.IntRange(1, 3).Draw(t, "failSetAt")
	}
	return c
}

func TestC06(t *testing.T) {
	rec := vkit.NewRecorder("C06")
	vkit.Prop(t, rec, genHistC06, func(c CaseHist) (*vkit.Failure, vkit.Meta) { return checkHistory(c, "C06") })
}

func TestC06Replay(t *testing.T) {
	vkit.Replay(t, "C06", func(c CaseHist) (*vkit.Failure, vkit.Meta) { return checkHistory(c, "C06") })
}

// TestHistDump prints the history of a replay file (debugging aid, not a check).
func TestHistDump(t *testing.T) {
	vkit.Replay(t, os.Getenv("VERIF_DUMP_PROP"), func(c CaseHist) (*vkit.Failure, vkit.Meta) {
		var h *histRun
		var fl *vkit.Failure
		for try := 0; try < 100; try++ {
			h, fl = runHistory(c)
			if fl != nil {
				fmt.Println("FAIL", fl.Msg)
				return nil, vkit.Meta{}
			}
			last := h.calls[len(h.calls)-1]
			if last.Err != nil && !last.Interrupted {
				fmt.Println("(a failing run, try", try, ")")
				break
			}
		}
		for _, cr := range h.calls {
			b, _ := json.Marshal(cr.Info)
			fmt.Printf("call %d %s fresh=%v interrupted=%v sets=%d err=%s\n   info=%s out=%s\n", cr.Idx, cr.Paradigm, cr.Fresh, cr.Interrupted, cr.Sets, shortErr(cr.Err), b, gkit.Canon(cr.Out))
		}
		for _, ev := range h.env.EventsCopy() {
			fmt.Printf("  ev call=%d %s %s in=%q out=%q\n", ev.Call, ev.Phase, ev.Node, vkit.Short(ev.In, 60), vkit.Short(ev.Out, 60))
		}
		return nil, vkit.Meta{}
	})
}

func genHistMod(t *rapid.T) CaseHist {
	c := genHist(t)
	c.Modifier = true
	c.NoID = false
	c.Spec.State = true
	return c
}

func TestC11Resume(t *testing.T) {
	rec := vkit.NewRecorder("C11")
	vkit.Prop(t, rec, genHistMod, func(c CaseHist) (*vkit.Failure, vkit.Meta) {
		f, m := checkHistory(c, "C05")
		if f != nil && vkit.Known("C05", f.Sig) {
			// the history cannot be resumed because of a finding recorded for C05: nothing to judge here
			m.Labels = append(m.Labels, "excluded:C05-known-finding")
			f = nil
		}
		nt := false
		for _, l := range m.Labels {
			if strings.HasPrefix(l, "interrupts:") && l != "interrupts:0" {
				nt = true
			}
		}
		m.NonTrivial = nt
		return f, m
	})
}

func TestC11ResumeReplay(t *testing.T) {
	vkit.Replay(t, "C11", func(c CaseHist) (*vkit.Failure, vkit.Meta) {
		if !c.Modifier {
			return nil, vkit.Meta{}
		}
		return checkHistory(c, "C05")
	})
}

// ---- C12, graph part: a checkpoint read back from a store restores channels, pending inputs and state ----
// Histories in which EVERY resume happens on a freshly compiled runnable (nothing but the bytes in the store
// connects the calls) and every call is Invoke; oracle = C05's (the resumed history equals the uninterrupted
// run).  Stream calls are left to C05 (its recorded finding needs one).

func genHistStore(t *rapid.T) CaseHist {
	c := genHist(t)
	c.Paradigms = []string{"invoke"}
	c.Fresh = []bool{true}
	c.NoID = false
	return c
}

func checkC12Graph(c CaseHist) (*vkit.Failure, vkit.Meta) {
	if len(c.Paradigms) != 1 || c.Paradigms[0] != "invoke" || len(c.Fresh) != 1 || !c.Fresh[0] {
		return nil, vkit.Meta{} // not a case of this part
	}
	f, m := checkHistory(c, "C05")
	if f != nil {
		f.Msg = "resuming from the stored checkpoint on a freshly compiled runnable: " + f.Msg
		f.Sig = "store-roundtrip:" + f.Sig
	}
	nt := false
	for _, l := range m.Labels {
		if strings.HasPrefix(l, "interrupts:") && l != "interrupts:0" && l != "interrupts:1" {
			nt = true
		}
	}
	m.NonTrivial = nt
	return f, m
}

func TestC12Graph(t *testing.T) {
	rec := vkit.NewRecorder("C12")
	vkit.Prop(t, rec, genHistStore, checkC12Graph)
}

func TestC12GraphReplay(t *testing.T) {
	vkit.Replay(t, "C12", checkC12Graph)
}

// ---- C01 / C02, resume parts: the step semantics hold across interrupt and resume ----
// C01: any-predecessor graphs - a value sent before an interrupt is received by its target in the step after
// the resume; C02: all-predecessor graphs and workflows - a node skipped (or a predecessor finished) before an
// interrupt stays so after the resume.  Invoke calls only; oracle = the history oracle (the interrupted history
// equals the uninterrupted run: output, executions, state), which for these modes is the reference model of
// C01 / C02 applied to the whole history.

func genHistInvoke(modes []string) func(t *rapid.T) CaseHist {
	return func(t *rapid.T) CaseHist {
		c := genHistModes(t, modes, false)
		c.Paradigms = []string{"invoke"}
		c.NoID = false
		return c
	}
}

func checkHistFor(prop string, modes map[string]bool) func(c CaseHist) (*vkit.Failure, vkit.Meta) {
	return func(c CaseHist) (*vkit.Failure, vkit.Meta) {
		if c.Spec == nil || !modes[c.Spec.Mode] || len(c.Paradigms) != 1 || c.Paradigms[0] != "invoke" {
			return nil, vkit.Meta{} // not a case of this part
		}
		f, m := checkHistory(c, "C05")
		if f != nil {
			f.Msg = "across interrupt and resume: " + f.Msg
			f.Sig = "resume:" + f.Sig
		}
		nt := false
		for _, l := range m.Labels {
			if strings.HasPrefix(l, "interrupts:") && l != "interrupts:0" {
				nt = true
			}
		}
		m.NonTrivial = nt
		return f, m
	}
}

func TestC01Resume(t *testing.T) {
	vkit.Prop(t, vkit.NewRecorder("C01"), genHistInvoke([]string{"pregel"}), checkHistFor("C01", map[string]bool{"pregel": true}))
}

func TestC01ResumeReplay(t *testing.T) {
	vkit.Replay(t, "C01", checkHistFor("C01", map[string]bool{"pregel": true}))
}

func TestC02Resume(t *testing.T) {
	vkit.Prop(t, vkit.NewRecorder("C02"), genHistInvoke([]string{"dag", "workflow"}), checkHistFor("C02", map[string]bool{"dag": true, "workflow": true}))
}

func TestC02ResumeReplay(t *testing.T) {
	vkit.Replay(t, "C02", checkHistFor("C02", map[string]bool{"dag": true, "workflow": true}))
}

// ---- C09, resume part: resumed runs are runs like any other - isolated ----
// After a history has completed, the call that completed it is repeated: the checkpoint it resumed from is still
// in the store (a call that finishes writes none), so every repetition - one after the other and several at once,
// on the same compiled runnable - starts from the same stored bytes and must return what the first one returned.

type CaseHistRep struct {
	H          CaseHist `json:"h"`
	Sequential int      `json:"sequential"`
	Concurrent int      `json:"concurrent"`
}

func genHistRep(t *rapid.T) CaseHistRep {
	h := genHistModes(t, []string{"pregel", "dag", "workflow"}, true)
	h.Paradigms = []string{"invoke"}
	h.NoID = false
	return CaseHistRep{H: h, Sequential: rapid.IntRange(1, 2).Draw(t, "sequential"), Concurrent: rapid.IntRange(0, 4).Draw(t, "concurrent")}
}

func checkC09Resume(c CaseHistRep) (*vkit.Failure, vkit.Meta) {
	var m vkit.Meta
	if c.H.Spec == nil || len(c.H.Paradigms) != 1 || c.H.Paradigms[0] != "invoke" || len(c.H.Fresh) == 0 {
		return nil, m
	}
	f := vkit.Guard("panic-escaped", func() *vkit.Failure {
		base := cloneSpec(c.H.Spec)
		stripInterrupts(base)
		ref := gkit.Ref(base, "", fixInput(c.H.Spec, c.H.Input), gkit.RefOpts{})
		if eagerAfter(c.H.Spec) {
			// eager (workflow) execution with interrupt-after points: whether such a node is the last to finish ("the run
			// finished with it") or an interrupt is due depends on which of the concurrently running nodes finishes
			// last - two resumes from the same bytes may legitimately end differently
			m.Labels = append(m.Labels, "eager-level-with-interrupt-after(skipped)")
			return nil
		}
		if ref.Fail != "" || ref.Ambiguous || len(ref.OptionalNodes) > 0 {
			// nodes that do not lead to END may outlive their run (and, when they hold a nested graph, interrupt after it
			// returned): only graphs in which a returned run is a finished run are judged here
			m.Labels = append(m.Labels, "not-a-clean-run-skipped")
			return nil
		}
		h, fl := runHistory(c.H)
		if fl != nil {
			return fl
		}
		interrupts := 0
		for _, cr := range h.calls {
			if cr.Interrupted {
				interrupts++
			}
		}
		m.Labels = append(m.Labels, fmt.Sprintf("interrupts:%s", bucket(interrupts)))
		if !h.finished || interrupts == 0 {
			m.Labels = append(m.Labels, "history-without-completed-resume(skipped)")
			return nil // C05's business, or nothing was resumed
		}
		want := gkit.Canon(h.finalOut)
		again := func(what string) *vkit.Failure {
			// the environment of the history is kept: bodies that ask for a rerun on their first attempts count attempts there
			out, err := runSpec(context.Background(), h.runner, h.env, h.lastCase, h.lastOpts...)
			if err != nil {
				return vkit.Failf("repeated-resume-differs", "%s from the same stored checkpoint failed: %s (the first resume returned %q)", what, shortErr(err), vkit.Short(want, 200))
			}
			if got := gkit.Canon(out); got != want {
				return &vkit.Failure{Kind: "repeated-resume-differs", Sig: "repeated-resume-differs", Msg: fmt.Sprintf("%s from the same stored checkpoint returned %q, the first resume returned %q", what, vkit.Short(got, 200), vkit.Short(want, 200))}
			}
			return nil
		}
		for i := 0; i < c.Sequential; i++ {
			if f := again(fmt.Sprintf("resume #%d", i+2)); f != nil {
				return f
			}
		}
		if c.Concurrent >= 2 {
			fs := make([]*vkit.Failure, c.Concurrent)
			var wg sync.WaitGroup
			for i := range fs {
				wg.Add(1)
				go func(i int) {
					defer wg.Done()
					defer func() {
						if p := recover(); p != nil {
							fs[i] = vkit.Failf("panic-escaped", "concurrent resume panicked: %v", p)
						}
					}()
					fs[i] = again(fmt.Sprintf("one of %d concurrent resumes", c.Concurrent))
				}(i)
			}
			wg.Wait()
			for _, f := range fs {
				if f != nil {
					return f
				}
			}
			m.Labels = append(m.Labels, "concurrent-resumes")
		}
		m.NonTrivial = interrupts >= 1
		return nil
	})
	return f, m
}

func TestC09Resume(t *testing.T) {
	vkit.Prop(t, vkit.NewRecorder("C09"), genHistRep, checkC09Resume)
}

func TestC09ResumeReplay(t *testing.T) {
	vkit.Replay(t, "C09", checkC09Resume)
}

// eagerAfter: some workflow level of the spec has interrupt-after points.
func eagerAfter(sp *gkit.Spec) bool {
	if sp.Mode == "workflow" && len(sp.IntAfter) > 0 {
		return true
	}
	for i := range sp.Nodes {
		if sp.Nodes[i].Sub != nil && eagerAfter(sp.Nodes[i].Sub) {
			return true
		}
	}
	for si := range sp.Stages {
		for i := range sp.Stages[si].Nodes {
			if n := &sp.Stages[si].Nodes[i]; n.Sub != nil && eagerAfter(n.Sub) {
				return true
			}
		}
	}
	return false
}
