package compose_test

// C02: all-predecessor graphs and Workflows: every node runs at most once, exactly when
// triggered; skips propagate; inputs are the merge of the data predecessors that ran and
// routed.  Oracle: the reference DAG evaluator gkit.Ref; for small numbers of branches all
// outcome vectors of the top-level branches are enumerated on the same compiled object.

import (
	"context"
	"fmt"
	"testing"

	"github.com/cloudwego/eino/internal/gkit"
	"github.com/cloudwego/eino/internal/vkit"
	rapid "github.com/cloudwego/eino/internal/vrapid"
)

type CaseC02 struct {
	CaseGraph
	Enum bool `json:"enum,omitempty"` // enumerate every outcome vector of the top-level branches
}

func genC02(t *rapid.T) CaseC02 {
	cfg := gkit.GenCfg{MaxNodes: 8, Depth: 1, SubModes: []string{"dag", "dag", "pregel", "workflow"}}
	if vkit.Thorough() {
		cfg.MaxNodes = 10
		cfg.Depth = 2
	}
	mode := "dag"
	if rapid.IntRange(0, 1).Draw(t, "workflow") == 0 {
		mode = "workflow"
	}
	c := CaseC02{}
	c.Spec = gkit.GenSpec(t, mode, cfg)
	if rapid.IntRange(0, 9).Draw(t, "joinMix") == 0 {
		// directed: one join reached by plain edges and through branches of several producers of one step
		c.Spec = gkit.GenJoinMix(t, cfg)
		c.Spec.Mode = "dag"
	}
	c.Input = gkit.GenInput(t, c.Spec.In)
	c.Paradigm = "invoke"
	if rapid.IntRange(0, 4).Draw(t, "stream") == 0 {
		c.Paradigm = "stream"
	}
	c.Enum = len(c.Spec.Branches) > 0 && len(c.Spec.Branches) <= 3 && rapid.IntRange(0, 2).Draw(t, "enum") == 0
	return c
}

func outcomeVectors(bs []gkit.Branch) [][][]string {
	var per [][][]string
	total := 1
	for _, b := range bs {
		var opts [][]string
		if b.Multi {
			for mask := 0; mask < 1<<uint(len(b.Targets)); mask++ {
				sel := []string{"-"}
				for i, t := range b.Targets {
					if mask&(1<<uint(i)) != 0 {
						sel = append(sel, t)
					}
				}
				opts = append(opts, sel)
			}
		} else {
			for _, t := range b.Targets {
				opts = append(opts, []string{t})
			}
		}
		per = append(per, opts)
		total *= len(opts)
	}
	if total > 96 {
		return nil
	}
	var out [][][]string
	var rec func(i int, cur [][]string)
	rec = func(i int, cur [][]string) {
		if i == len(per) {
			out = append(out, append([][]string(nil), cur...))
			return
		}
		for _, o := range per[i] {
			rec(i+1, append(cur, o))
		}
	}
	rec(0, nil)
	return out
}

var c02Rec *vkit.Recorder

func checkC02(c CaseC02) (*vkit.Failure, vkit.Meta) {
	classify := func(m *vkit.Meta, ref *gkit.RefResult) {
		if ref == nil {
			return
		}
		special := false
		for _, e := range c.Spec.Edges {
			if e.NoControl || e.NoData {
				special = true
			}
		}
		if special {
			m.Labels = append(m.Labels, "control-only/data-only-edge")
		}
		m.NonTrivial = !ref.Ambiguous && len(ref.Skipped) > 0 && (ref.MixedPreds || (c.Spec.Mode == "workflow" && special))
	}
	if !c.Enum {
		f, m, ref := checkRef(c.CaseGraph, nil)
		classify(&m, ref)
		return f, m
	}
	vecs := outcomeVectors(c.Spec.Branches)
	if vecs == nil {
		f, m, ref := checkRef(c.CaseGraph, nil)
		classify(&m, ref)
		return f, m
	}
	r, err := gkit.Compile(context.Background(), c.Spec, nil)
	if err != nil {
		return vkit.Failf("compile-rejected-wellformed-graph", "Compile failed on a well-typed generated graph: %v", err), vkit.Meta{}
	}
	var meta vkit.Meta
	defer func() {
		for i := range c.Spec.Branches {
			c.Spec.Branches[i].Force = nil
		}
	}()
	for _, vec := range vecs {
		for i := range c.Spec.Branches {
			c.Spec.Branches[i].Force = vec[i]
		}
		f, m, ref := checkRef(c.CaseGraph, r)
		classify(&m, ref)
		if m.NonTrivial {
			meta.NonTrivial = true
		}
		if c02Rec != nil {
			c02Rec.Add("outcome_vectors_run", 1)
		}
		if f != nil {
			f.Msg = fmt.Sprintf("with branch outcomes forced to %v: %s", vec, f.Msg)
			f.Detail = map[string]any{"forced": vec, "detail": f.Detail}
			meta.Labels = m.Labels
			return f, meta
		}
		meta.Labels = m.Labels
	}
	meta.Labels = append(meta.Labels, "enumerated-outcome-vectors")
	return nil, meta
}

func TestC02(t *testing.T) {
	c02Rec = vkit.NewRecorder("C02")
	vkit.Prop(t, c02Rec, genC02, checkC02)
}

func TestC02Replay(t *testing.T) {
	vkit.Replay(t, "C02", checkC02)
}
