package compose_test

// C04, typed part: the four paradigms agree "however producers split their output into chunks" also for chunk
// types whose concatenation is not string joining: numbers and booleans (the last chunk is the value), maps
// with such leaves (per key), next to strings.
//
// Generated: a pipeline of 1-3 nodes over T (T = int, bool, or map[string]any with string / int / bool / float /
// nested-map leaves); every node natively implements a generated subset of Invoke / Stream / Collect /
// Transform and splits its output according to a generated chunking plan (numbers and booleans: arbitrary
// earlier values - zero values among them - followed by the value; strings: pieces; map keys spread over the
// chunks); the input of Collect / Transform is split the same way.
// Oracle: reference model = the fold of the node functions over the input value (no concatenation involved);
// Invoke and Collect must return it, the chunks delivered by Stream and Transform must concatenate to it under
// the reference concatenation written from the documented rules.

import (
	"context"
	"fmt"
	"io"
	"sort"
	"strings"
	"testing"

	"github.com/cloudwego/eino/compose"
	"github.com/cloudwego/eino/internal/vkit"
	rapid "github.com/cloudwego/eino/internal/vrapid"
	"github.com/cloudwego/eino/schema"
)

type N04t struct {
	Para   string `json:"para"`   // subset of ISCT
	Chunks int    `json:"chunks"` // chunks of the output (>= 1)
	Noise  int    `json:"noise"`  // selects the earlier values of last-wins leaves
}

type CaseC04t struct {
	Kind   string         `json:"kind"` // int | bool | map
	Nodes  []N04t         `json:"nodes"`
	Int    int            `json:"int,omitempty"`
	Bool   bool           `json:"bool,omitempty"`
	Map    map[string]any `json:"map,omitempty"` // leaves: string, float64 (JSON), bool, nested map; key prefix tells the type
	InPlan N04t           `json:"inplan"`        // chunking of the input for Collect / Transform
}

func genC04t(t *rapid.T) CaseC04t {
	c := CaseC04t{Kind: []string{"int", "bool", "map", "map"}[rapid.IntRange(0, 3).Draw(t, "kind")]}
	plan := func() N04t {
		return N04t{Para: []string{"I", "S", "C", "T", "IS", "IT", "SC", "ISCT"}[rapid.IntRange(0, 7).Draw(t, "para")],
			Chunks: rapid.IntRange(1, 4).Draw(t, "chunks"), Noise: rapid.IntRange(0, 7).Draw(t, "noise")}
	}
	for i := rapid.IntRange(1, 3).Draw(t, "nNodes"); i > 0; i-- {
		c.Nodes = append(c.Nodes, plan())
	}
	c.InPlan = plan()
	c.Int = rapid.IntRange(0, 2).Draw(t, "int")
	c.Bool = rapid.Bool().Draw(t, "bool")
	if c.Kind == "map" {
		c.Map = map[string]any{}
		for _, k := range []string{"s_a", "i_n", "b_x", "f_y", "i_z"} {
			if rapid.IntRange(0, 3).Draw(t, "has") == 0 {
				continue
			}
			switch k[0] {
			case 's':
				c.Map[k] = rapid.StringMatching("[a-c]{0,4}").Draw(t, "sv")
			case 'i':
				c.Map[k] = float64(rapid.IntRange(0, 2).Draw(t, "iv"))
			case 'b':
				c.Map[k] = rapid.Bool().Draw(t, "bv")
			case 'f':
				c.Map[k] = float64(rapid.IntRange(0, 2).Draw(t, "fv")) / 2
			}
		}
		if rapid.IntRange(0, 2).Draw(t, "nested") == 0 {
			c.Map["m_in"] = map[string]any{"i_k": float64(rapid.IntRange(0, 2).Draw(t, "niv")), "s_k": rapid.StringMatching("[a-c]{0,3}").Draw(t, "nsv")}
		}
	}
	return c
}

// ---- value operations per chunk type -------------------------------------------------------

type ops04t[T any] struct {
	f      func(i int, v T) T      // the function of node i
	split  func(v T, p N04t) []T   // a chunking of v whose reference concatenation is v
	concat func(cs []T) (T, error) // reference concatenation (documented rules)
	canon  func(v T) string
}

func noiseInt(p N04t, j int) int   { return []int{0, 7, 0, 9, 1, 0, 2, 5}[(p.Noise+j)%8] }
func noiseBool(p N04t, j int) bool { return (p.Noise+j)%3 != 0 }

var intOps = ops04t[int]{
	f: func(i int, v int) int { return (v + i + 1) % 3 },
	split: func(v int, p N04t) []int {
		var out []int
		for j := 0; j < p.Chunks-1; j++ {
			out = append(out, noiseInt(p, j))
		}
		return append(out, v)
	},
	concat: func(cs []int) (int, error) { return cs[len(cs)-1], nil },
	canon:  func(v int) string { return fmt.Sprint(v) },
}

var boolOps = ops04t[bool]{
	f: func(i int, v bool) bool { return !v },
	split: func(v bool, p N04t) []bool {
		var out []bool
		for j := 0; j < p.Chunks-1; j++ {
			out = append(out, noiseBool(p, j))
		}
		return append(out, v)
	},
	concat: func(cs []bool) (bool, error) { return cs[len(cs)-1], nil },
	canon:  func(v bool) string { return fmt.Sprint(v) },
}

func canonMap04(m map[string]any) string {
	keys := make([]string, 0, len(m))
	for k := range m {
		keys = append(keys, k)
	}
	sort.Strings(keys)
	var sb strings.Builder
	sb.WriteByte('{')
	for _, k := range keys {
		switch x := m[k].(type) {
		case map[string]any:
			fmt.Fprintf(&sb, "%s:%s,", k, canonMap04(x))
		default:
			fmt.Fprintf(&sb, "%s:%T=%v,", k, x, x)
		}
	}
	sb.WriteByte('}')
	return sb.String()
}

// normMap04 turns the JSON form of a case (numbers are float64) into the typed form: i_ keys hold int.
func normMap04(m map[string]any) map[string]any {
	out := map[string]any{}
	for k, v := range m {
		switch x := v.(type) {
		case map[string]any:
			out[k] = normMap04(x)
		case float64:
			if k[0] == 'i' {
				out[k] = int(x)
			} else {
				out[k] = x
			}
		case int, bool, string:
			out[k] = x
		}
	}
	return out
}

func fMap04(i int, m map[string]any) map[string]any {
	out := map[string]any{}
	for k, v := range m {
		switch x := v.(type) {
		case string:
			out[k] = x + fmt.Sprintf("|%d", i)
		case int:
			out[k] = (x + i + 1) % 3
		case bool:
			out[k] = !x
		case float64:
			if x >= 1 {
				out[k] = 0.0
			} else {
				out[k] = x + 0.5
			}
		case map[string]any:
			out[k] = fMap04(i, x)
		}
	}
	// what the node saw, exactly (a wrong concatenation upstream shows here even if a later node would mask it)
	out[fmt.Sprintf("s_seen%d", i)] = canonMap04(m)
	return out
}

func splitMap04(m map[string]any, p N04t) []map[string]any {
	n := p.Chunks
	out := make([]map[string]any, n)
	for j := range out {
		out[j] = map[string]any{}
	}
	keys := make([]string, 0, len(m))
	for k := range m {
		keys = append(keys, k)
	}
	sort.Strings(keys)
	for ki, k := range keys {
		// the chunks that carry this key: a non-empty subset decided by the plan; the last of them carries the value
		var at []int
		for j := 0; j < n; j++ {
			if (p.Noise+ki+j)%2 == 0 {
				at = append(at, j)
			}
		}
		if len(at) == 0 {
			at = []int{(p.Noise + ki) % n}
		}
		switch x := m[k].(type) {
		case string:
			pieces := len(at)
			for pi, j := range at {
				lo, hi := len(x)*pi/pieces, len(x)*(pi+1)/pieces
				out[j][k] = x[lo:hi]
			}
		case int:
			for pi, j := range at {
				if pi == len(at)-1 {
					out[j][k] = x
				} else {
					out[j][k] = noiseInt(p, j+ki)
				}
			}
		case bool:
			for pi, j := range at {
				if pi == len(at)-1 {
					out[j][k] = x
				} else {
					out[j][k] = noiseBool(p, j+ki)
				}
			}
		case float64:
			for pi, j := range at {
				if pi == len(at)-1 {
					out[j][k] = x
				} else {
					out[j][k] = float64(noiseInt(p, j+ki)) / 2
				}
			}
		case map[string]any:
			sub := splitMap04(x, N04t{Chunks: len(at), Noise: p.Noise + 1})
			for pi, j := range at {
				out[j][k] = sub[pi]
			}
		}
	}
	return out
}

func concatMap04(cs []map[string]any) (map[string]any, error) {
	vals := map[string][]any{}
	for _, c := range cs {
		for k, v := range c {
			vals[k] = append(vals[k], v)
		}
	}
	out := map[string]any{}
	for k, vs := range vals {
		if len(vs) == 1 {
			out[k] = vs[0]
			continue
		}
		switch vs[0].(type) {
		case string:
			s := ""
			for _, v := range vs {
				x, ok := v.(string)
				if !ok {
					return nil, fmt.Errorf("mixed types under %s", k)
				}
				s += x
			}
			out[k] = s
		case map[string]any:
			var ms []map[string]any
			for _, v := range vs {
				x, ok := v.(map[string]any)
				if !ok {
					return nil, fmt.Errorf("mixed types under %s", k)
				}
				ms = append(ms, x)
			}
			m, err := concatMap04(ms)
			if err != nil {
				return nil, err
			}
			out[k] = m
		default:
			out[k] = vs[len(vs)-1]
		}
	}
	return out, nil
}

var mapOps = ops04t[map[string]any]{f: fMap04, split: splitMap04, concat: concatMap04, canon: canonMap04}

// ---- the pipeline ---------------------------------------------------------------------------

func drain04t[T any](sr *schema.StreamReader[T]) ([]T, error) {
	defer sr.Close()
	var out []T
	for {
		c, err := sr.Recv()
		if err == io.EOF {
			return out, nil
		}
		if err != nil {
			return out, err
		}
		out = append(out, c)
	}
}

func run04t[T any](c CaseC04t, in T, ops ops04t[T], m *vkit.Meta) *vkit.Failure {
	ctx := context.Background()
	g := compose.NewGraph[T, T]()
	prev := compose.START
	want := in
	for i, nd := range c.Nodes {
		i, nd := i, nd
		want = ops.f(i, want)
		whole := func(cs []T) (T, error) {
			if len(cs) == 0 {
				var z T
				return z, fmt.Errorf("node %d received an empty stream", i)
			}
			if len(cs) == 1 {
				return cs[0], nil
			}
			return ops.concat(cs)
		}
		var inv compose.Invoke[T, T, struct{}]
		var str compose.Stream[T, T, struct{}]
		var col compose.Collect[T, T, struct{}]
		var tra compose.Transform[T, T, struct{}]
		if strings.Contains(nd.Para, "I") {
			inv = func(ctx context.Context, v T, _ ...struct{}) (T, error) { return ops.f(i, v), nil }
		}
		if strings.Contains(nd.Para, "S") {
			str = func(ctx context.Context, v T, _ ...struct{}) (*schema.StreamReader[T], error) {
				return schema.StreamReaderFromArray(ops.split(ops.f(i, v), nd)), nil
			}
		}
		if strings.Contains(nd.Para, "C") {
			col = func(ctx context.Context, sr *schema.StreamReader[T], _ ...struct{}) (T, error) {
				cs, err := drain04t(sr)
				if err != nil {
					var z T
					return z, err
				}
				v, err := whole(cs)
				if err != nil {
					var z T
					return z, err
				}
				return ops.f(i, v), nil
			}
		}
		if strings.Contains(nd.Para, "T") {
			tra = func(ctx context.Context, sr *schema.StreamReader[T], _ ...struct{}) (*schema.StreamReader[T], error) {
				cs, err := drain04t(sr)
				if err != nil {
					return nil, err
				}
				v, err := whole(cs)
				if err != nil {
					return nil, err
				}
				return schema.StreamReaderFromArray(ops.split(ops.f(i, v), nd)), nil
			}
		}
		l, err := compose.AnyLambda(inv, str, col, tra)
		if err != nil {
			return vkit.Failf("build-failed", "%v", err)
		}
		key := fmt.Sprintf("t%d", i)
		if err := g.AddLambdaNode(key, l); err != nil {
			return vkit.Failf("build-failed", "%v", err)
		}
		if err := g.AddEdge(prev, key); err != nil {
			return vkit.Failf("build-failed", "%v", err)
		}
		prev = key
	}
	if err := g.AddEdge(prev, compose.END); err != nil {
		return vkit.Failf("build-failed", "%v", err)
	}
	r, err := g.Compile(ctx)
	if err != nil {
		return vkit.Failf("compile-rejected-wellformed-graph", "%v", err)
	}
	wantS := ops.canon(want)
	inChunks := func() *schema.StreamReader[T] { return schema.StreamReaderFromArray(ops.split(in, c.InPlan)) }
	judge := func(paradigm string, v T, err error) *vkit.Failure {
		if err != nil {
			return vkit.Failf("paradigm-outcome", "%s failed on a pipeline whose nodes all succeed: %s", paradigm, shortErr(err))
		}
		if got := ops.canon(v); got != wantS {
			return &vkit.Failure{Kind: "paradigm-output", Sig: "typed-paradigm-output", Msg: fmt.Sprintf("%s yields %s, the fold of the node functions over the input is %s (native paradigms %v)", paradigm, got, wantS, paras04t(c))}
		}
		return nil
	}
	fromStream := func(sr *schema.StreamReader[T], err error) (T, error) {
		var z T
		if err != nil {
			return z, err
		}
		cs, err := drain04t(sr)
		if err != nil {
			return z, err
		}
		if len(cs) == 0 {
			return z, fmt.Errorf("empty output stream")
		}
		if len(cs) == 1 {
			return cs[0], nil
		}
		return ops.concat(cs)
	}
	v, err := r.Invoke(ctx, in)
	if f := judge("Invoke", v, err); f != nil {
		return f
	}
	v, err = fromStream(r.Stream(ctx, in))
	if f := judge("Stream (chunks concatenated)", v, err); f != nil {
		return f
	}
	v, err = r.Collect(ctx, inChunks())
	if f := judge("Collect", v, err); f != nil {
		return f
	}
	v, err = fromStream(r.Transform(ctx, inChunks()))
	if f := judge("Transform (chunks concatenated)", v, err); f != nil {
		return f
	}
	return nil
}

func paras04t(c CaseC04t) []string {
	var ps []string
	for _, n := range c.Nodes {
		ps = append(ps, n.Para)
	}
	return ps
}

func checkC04t(c CaseC04t) (*vkit.Failure, vkit.Meta) {
	m := vkit.Meta{Labels: []string{"chunk-type:" + c.Kind}}
	if len(c.Nodes) == 0 || c.InPlan.Chunks < 1 {
		return nil, m
	}
	for _, n := range c.Nodes {
		if n.Chunks < 1 || n.Para == "" {
			return nil, m
		}
	}
	f := vkit.Guard("panic-escaped", func() *vkit.Failure {
		switch c.Kind {
		case "int":
			return run04t(c, c.Int, intOps, &m)
		case "bool":
			return run04t(c, c.Bool, boolOps, &m)
		case "map":
			return run04t(c, normMap04(c.Map), mapOps, &m)
		}
		return nil
	})
	// non-trivial: the framework itself has to concatenate a multi-chunk stream somewhere
	conv := false
	for i, n := range c.Nodes {
		streams := strings.ContainsAny(n.Para, "ST") && n.Chunks >= 2
		if !streams {
			continue
		}
		if i+1 < len(c.Nodes) && !strings.ContainsAny(c.Nodes[i+1].Para, "CT") {
			conv = true
		}
		if !strings.Contains(n.Para, "I") && !strings.Contains(n.Para, "C") {
			conv = true // Invoke / Collect of the graph must concatenate this node's stream
		}
	}
	m.NonTrivial = conv
	return f, m
}

func TestC04Typed(t *testing.T) {
	rec := vkit.NewRecorder("C04")
	vkit.Prop(t, rec, genC04t, checkC04t)
}

func TestC04TypedReplay(t *testing.T) {
	vkit.Replay(t, "C04", checkC04t)
}
