package compose_test

// C04: Invoke, Stream, Collect and Transform of one compiled object agree with each other and
// with the reference model, whatever paradigms the nodes implement natively and however
// producers chunk their output; failures are visible in all four.

import (
	"context"
	"fmt"
	"sync/atomic"
	"testing"
	"time"

	"github.com/cloudwego/eino/internal/gkit"
	"github.com/cloudwego/eino/internal/vkit"
	rapid "github.com/cloudwego/eino/internal/vrapid"
)

type CaseC04 struct {
	Spec     *gkit.Spec `json:"spec"`
	Input    any        `json:"input"`
	InChunks int        `json:"inchunks"`
}

func markFault(t *rapid.T, sp *gkit.Spec) {
	// one lambda somewhere fails: at call time or with an error item mid-stream
	var lambdas []*gkit.NodeSpec
	var walk func(sp *gkit.Spec)
	walk = func(sp *gkit.Spec) {
		for i := range sp.Nodes {
			n := &sp.Nodes[i]
			if n.Kind == "lambda" {
				lambdas = append(lambdas, n)
			} else if n.Kind == "graph" {
				walk(n.Sub)
			}
		}
		for si := range sp.Stages {
			for i := range sp.Stages[si].Nodes {
				n := &sp.Stages[si].Nodes[i]
				if n.Kind == "lambda" {
					lambdas = append(lambdas, n)
				} else if n.Kind == "graph" {
					walk(n.Sub)
				}
			}
		}
	}
	walk(sp)
	if len(lambdas) == 0 {
		return
	}
	n := lambdas[rapid.IntRange(0, len(lambdas)-1).Draw(t, "faultNode")]
	n.Fault = []string{"err", "streamerr"}[rapid.IntRange(0, 1).Draw(t, "faultKind")]
	n.FaultEOF = rapid.IntRange(0, 2).Draw(t, "faultEOF") == 0 // the failure's chain also ends in io.EOF: a failure all the same
}

func genC04(t *rapid.T) CaseC04 {
	cfg := gkit.GenCfg{MaxNodes: 6, Depth: 1, Cycles: true, NoFailMix: true, Paradigms: true, StreamBr: true, State: true,
		SubModes: []string{"pregel", "dag", "workflow", "chain"}}
	if vkit.Thorough() {
		cfg.MaxNodes = 8
		cfg.Depth = 2
	}
	var c CaseC04
	if w := rapid.IntRange(0, 9).Draw(t, "wide"); w == 0 {
		c = CaseC04{Spec: gkit.GenWide(t, cfg)}
	} else if w == 1 {
		// directed: the input stream is copied for two or three joins that each merge it with another producer's output
		c = CaseC04{Spec: gkit.GenTwoJoins(t, cfg)}
	} else {
		mode := []string{"pregel", "pregel", "dag", "workflow", "chain"}[rapid.IntRange(0, 4).Draw(t, "mode")]
		c = CaseC04{Spec: gkit.GenTop(t, mode, cfg)}
	}
	c.Input = gkit.GenInput(t, c.Spec.In)
	c.InChunks = rapid.IntRange(1, 3).Draw(t, "inChunks")
	if rapid.IntRange(0, 5).Draw(t, "withFault") == 0 {
		markFault(t, c.Spec)
	}
	return c
}

type paraResult struct {
	class string
	out   string
	execs []gkit.Exec
	err   error
}

func specFeatures(sp *gkit.Spec, f map[string]bool, paras map[string]bool) {
	succ := map[string]int{}
	pred := map[string]int{}
	for _, e := range sp.Edges {
		succ[e.From]++
		if !e.NoData {
			pred[e.To]++
		}
		if e.ToKey != "" {
			f["field-mapping"] = true
		}
	}
	for _, b := range sp.Branches {
		succ[b.From] += 2
		if b.Stream {
			f["stream-branch"] = true
		}
	}
	for _, c := range succ {
		if c >= 2 {
			f["fan-out"] = true
		}
	}
	for _, c := range pred {
		if c >= 2 {
			f["fan-in"] = true
		}
	}
	each := func(n *gkit.NodeSpec) {
		if n.InputKey != "" || n.OutputKey != "" {
			f["key-wrapping"] = true
		}
		if n.PreH != "" || n.PostH != "" {
			f["state-handler"] = true
		}
		if n.PreH == "s" || n.PostH == "s" {
			f["stream-state-handler"] = true
		}
		if n.Kind == "lambda" {
			p := n.Para
			if p == "" {
				p = "I"
			}
			paras[p] = true
			if n.Chunks >= 2 && (containsRune(p, 'S') || containsRune(p, 'T')) {
				f["multi-chunk-producer"] = true
			}
		}
		if n.Kind == "graph" {
			specFeatures(n.Sub, f, paras)
		}
	}
	for i := range sp.Nodes {
		each(&sp.Nodes[i])
	}
	for si := range sp.Stages {
		if sp.Stages[si].Kind == "parallel" {
			f["fan-out"] = true
			f["fan-in"] = true
		}
		for i := range sp.Stages[si].Nodes {
			each(&sp.Stages[si].Nodes[i])
		}
	}
}

func containsRune(s string, r rune) bool {
	for _, c := range s {
		if c == r {
			return true
		}
	}
	return false
}

var c04Rec *vkit.Recorder
var c04Progress int64

func checkC04(c CaseC04) (*vkit.Failure, vkit.Meta) {
	var m vkit.Meta
	if c.Spec == nil {
		return nil, m
	}
	if c04Rec == nil {
		return checkC04Inner(c, &m), m
	}
	// "never a hang in only some paradigms": a stuck case is reported by the no-progress watchdog
	f := vkit.Watchdog(c04Rec, c, 30*time.Second, func() int64 { return atomic.LoadInt64(&c04Progress) }, func() *vkit.Failure {
		return checkC04Inner(c, &m)
	})
	return f, m
}

func checkC04Inner(c CaseC04, mp *vkit.Meta) *vkit.Failure {
	var m vkit.Meta
	defer func() { *mp = m }()
	f := vkit.Guard("panic-escaped", func() *vkit.Failure {
		in := fixInput(c.Spec, c.Input)
		ref := gkit.Ref(c.Spec, "", in, gkit.RefOpts{})
		feats, paras := map[string]bool{}, map[string]bool{}
		specFeatures(c.Spec, feats, paras)
		m.Labels = append(m.Labels, "mode:"+c.Spec.Mode, "ref:"+refClass(ref))
		for k := range feats {
			m.Labels = append(m.Labels, k)
		}
		if ref.Ambiguous || baseClass(ref.Fail) == "merge" {
			m.Labels = append(m.Labels, "ambiguous-skipped")
			return nil
		}
		structural := feats["fan-out"] || feats["fan-in"] || feats["stream-branch"] || feats["key-wrapping"] || feats["field-mapping"] || feats["state-handler"]
		m.NonTrivial = len(paras) >= 2 && feats["multi-chunk-producer"] && structural && len(ref.Execs) >= 2
		ctx := context.Background()
		r, err := gkit.Compile(ctx, c.Spec, nil)
		if err != nil {
			return vkit.Failf("compile-rejected-wellformed-graph", "Compile failed on a well-typed generated graph: %v", err)
		}
		chunks := gkit.ChunkInput(in, c.InChunks)
		results := map[string]*paraResult{}
		for _, p := range []string{"invoke", "stream", "collect", "transform"} {
			env := gkit.NewEnv("c04-" + p)
			env.MaxRunsPerNode = 400
			env.Hook = func(context.Context, *gkit.NodeSpec, string, string) { atomic.AddInt64(&c04Progress, 1) }
			cctx := env.With(ctx)
			pr := &paraResult{}
			var out any
			var rerr error
			switch p {
			case "invoke":
				out, rerr = r.Invoke(cctx, in)
			case "stream":
				sr, e := r.Stream(cctx, in)
				rerr = e
				if e == nil {
					out, _, rerr = gkit.DrainAny(sr)
				}
			case "collect":
				out, rerr = r.Collect(cctx, chunks)
			case "transform":
				sr, e := r.Transform(cctx, chunks)
				rerr = e
				if e == nil {
					out, _, rerr = gkit.DrainAny(sr)
				}
			}
			pr.err = rerr
			pr.class = classifyErr(rerr)
			if rerr == nil {
				pr.out = gkit.Canon(out)
			}
			pr.execs = env.Execs()
			results[p] = pr
		}
		want := baseClass(ref.Fail)
		var altOK *gkit.RefResult // stream mode may also end like the fault-free run (unread failing stream)
		if fn := gkit.FaultNode(c.Spec); fn != nil && fn.Fault == "streamerr" && want == "fault" {
			must, nf := gkit.StreamFaultExpectation(c.Spec, in, gkit.RefOpts{})
			// the error item is delivered when (and if) the stream is read: the run may end like the fault-free run
			// when nothing needs the stream, and, when the fault-free run fails by itself, that failure may come first
			if (!must || nf.Fail != "") && !nf.Ambiguous && baseClass(nf.Fail) != "merge" {
				altOK = nf
			}
			if nf.Ambiguous || baseClass(nf.Fail) == "merge" {
				m.Labels = append(m.Labels, "ambiguous-skipped")
				m.NonTrivial = false
				return nil
			}
			if must {
				m.Labels = append(m.Labels, "stream-fault-must-surface")
			}
		}
		for _, p := range []string{"invoke", "stream", "collect", "transform"} {
			pr := results[p]
			if p != "invoke" && altOK != nil && pr.class == baseClass(altOK.Fail) && (pr.class != "" || pr.out == gkit.Canon(altOK.Out)) {
				continue
			}
			if pr.class != want {
				return &vkit.Failure{Kind: "paradigm-outcome", Sig: "paradigm-outcome", Msg: fmt.Sprintf("%s ended with %q, reference model says %q (invoke: %q, stream: %q, collect: %q, transform: %q); err=%s",
					p, pr.class, want, results["invoke"].class, results["stream"].class, results["collect"].class, results["transform"].class, shortErr(pr.err))}
			}
			if want == "" && pr.out != gkit.Canon(ref.Out) {
				return &vkit.Failure{Kind: "paradigm-output", Sig: "paradigm-output", Msg: fmt.Sprintf("%s yields %q, reference model says %q (invoke yields %q)", p, vkit.Short(pr.out, 200), vkit.Short(gkit.Canon(ref.Out), 200), vkit.Short(results["invoke"].out, 200))}
			}
			if want == "" {
				if d := gkit.DiffExecs(pr.execs, ref.Execs, ref.Optional...); d != "" {
					return &vkit.Failure{Kind: "paradigm-executions", Sig: "paradigm-executions", Msg: p + ": " + d}
				}
			}
		}
		return nil
	})
	return f
}

func TestC04(t *testing.T) {
	c04Rec = vkit.NewRecorder("C04")
	vkit.Prop(t, c04Rec, genC04, checkC04)
}

func TestC04Replay(t *testing.T) {
	c04Rec = vkit.NewRecorder("C04")
	vkit.Replay(t, "C04", checkC04)
}
