package compose_test

// C10: callback handlers fire exactly once per execution unit at its start and once at its end,
// with that unit's run info and payload; a handler designated to one node is never invoked for
// another node, however the handlers were supplied and however parallel nodes finish; stream
// payloads are independent copies.
//
// Generated: graphs of all kinds (nested), handler supply plans (0-2 global handlers; per-call
// handlers spread over 1-4 WithCallbacks options with 1-3 handlers each, which is what decides
// slice capacity; handlers designated to lambda nodes at every nesting level; full handlers and
// handlers built with HandlerBuilder for the value timings only), paradigm Invoke or Stream,
// gated parallel nodes released in a generated order, per-handler stream behaviour (read all /
// read a prefix then close / close at once).
// Oracle: units come from the reference model (lambda executions with input and output, graph
// node executions, the run itself).  For every full handler that applies to a unit: exactly one
// start-type and one end-type event with that unit's name; value payloads equal the unit's input /
// output; designated handlers see only their node; the result equals the reference whatever the
// handlers do with their stream copies.

import (
	"context"
	"fmt"
	"io"
	"sort"
	"strings"
	"sync"
	"testing"
	"time"

	"github.com/cloudwego/eino/callbacks"
	"github.com/cloudwego/eino/compose"
	"github.com/cloudwego/eino/internal/gkit"
	"github.com/cloudwego/eino/internal/vkit"
	rapid "github.com/cloudwego/eino/internal/vrapid"
	"github.com/cloudwego/eino/schema"
)

type H10 struct {
	Partial bool   `json:"partial,omitempty"` // built with HandlerBuilder for OnStart/OnEnd/OnError only
	Stream  string `json:"stream,omitempty"`  // all | prefix | close
}

type D10 struct {
	Tag  string `json:"tag"`
	Tag2 string `json:"tag2,omitempty"` // second path of the same option
	H    H10    `json:"h"`
}

type CaseC10 struct {
	Spec       *gkit.Spec `json:"spec"`
	Input      any        `json:"input"`
	Paradigm   string     `json:"paradigm"`
	Global     []H10      `json:"global,omitempty"`
	PerCall    [][]H10    `json:"percall,omitempty"`    // one WithCallbacks option per entry
	Designated []D10      `json:"designated,omitempty"` // handlers designated to lambda nodes (several options may name the same node)
	Release    []int      `json:"release,omitempty"`    // order in which gated bodies are released
	// OneArray: the caller keeps all handlers of the call in ONE array and passes sub-slices of it to the options
	// (first option, then the designated ones, then the other options): every slice has spare capacity that
	// belongs to its neighbours
	OneArray bool `json:"onearray,omitempty"`
}

type ev10 struct {
	h       string
	timing  string // start | end | error
	name    string
	payload string
	stream  bool
	read    bool // stream payload was read to the end
}

type rec10 struct {
	mu  sync.Mutex
	evs []ev10
	wg  sync.WaitGroup
}

func (r *rec10) add(e ev10) {
	r.mu.Lock()
	r.evs = append(r.evs, e)
	r.mu.Unlock()
}

type handler10 struct {
	id   string
	plan string
	rec  *rec10
}

func (h *handler10) OnStart(ctx context.Context, info *callbacks.RunInfo, in callbacks.CallbackInput) context.Context {
	h.rec.add(ev10{h: h.id, timing: "start", name: nameOf(info), payload: gkit.Canon(in)})
	return ctx
}
func (h *handler10) OnEnd(ctx context.Context, info *callbacks.RunInfo, out callbacks.CallbackOutput) context.Context {
	h.rec.add(ev10{h: h.id, timing: "end", name: nameOf(info), payload: gkit.Canon(out)})
	return ctx
}
func (h *handler10) OnError(ctx context.Context, info *callbacks.RunInfo, err error) context.Context {
	h.rec.add(ev10{h: h.id, timing: "error", name: nameOf(info), payload: "err"})
	return ctx
}
func (h *handler10) consume(timing string, info *callbacks.RunInfo, recv func() (any, error), closeFn func()) {
	name := nameOf(info)
	h.rec.wg.Add(1)
	go func() {
		defer h.rec.wg.Done()
		defer closeFn()
		var chunks []any
		n := 0
		for {
			if h.plan == "close" || (h.plan == "prefix" && n >= 1) {
				h.rec.add(ev10{h: h.id, timing: timing, name: name, stream: true})
				return
			}
			c, err := recv()
			if err == io.EOF {
				break
			}
			if err != nil {
				h.rec.add(ev10{h: h.id, timing: timing, name: name, stream: true, payload: "streamerr"})
				return
			}
			chunks = append(chunks, c)
			n++
		}
		p := "<empty>"
		if len(chunks) > 0 {
			if v, err := gkit.ConcatAny(chunks); err == nil {
				p = gkit.Canon(v)
			}
		}
		h.rec.add(ev10{h: h.id, timing: timing, name: name, stream: true, read: true, payload: p})
	}()
}
func (h *handler10) OnStartWithStreamInput(ctx context.Context, info *callbacks.RunInfo, in *schema.StreamReader[callbacks.CallbackInput]) context.Context {
	h.consume("start", info, func() (any, error) { return in.Recv() }, in.Close)
	return ctx
}
func (h *handler10) OnEndWithStreamOutput(ctx context.Context, info *callbacks.RunInfo, out *schema.StreamReader[callbacks.CallbackOutput]) context.Context {
	h.consume("end", info, func() (any, error) { return out.Recv() }, out.Close)
	return ctx
}

func nameOf(info *callbacks.RunInfo) string {
	if info == nil {
		return "<nil-info>"
	}
	return info.Name
}

func mkHandler(id string, d H10, rec *rec10) callbacks.Handler {
	h := &handler10{id: id, plan: d.Stream, rec: rec}
	if !d.Partial {
		return h
	}
	return callbacks.NewHandlerBuilder().
		OnStartFn(func(ctx context.Context, info *callbacks.RunInfo, in callbacks.CallbackInput) context.Context {
			return h.OnStart(ctx, info, in)
		}).
		OnEndFn(func(ctx context.Context, info *callbacks.RunInfo, out callbacks.CallbackOutput) context.Context {
			return h.OnEnd(ctx, info, out)
		}).
		OnErrorFn(func(ctx context.Context, info *callbacks.RunInfo, err error) context.Context {
			return h.OnError(ctx, info, err)
		}).Build()
}

func genH(t *rapid.T) H10 {
	return H10{Partial: rapid.IntRange(0, 3).Draw(t, "partial") == 0, Stream: []string{"all", "all", "prefix", "close"}[rapid.IntRange(0, 3).Draw(t, "hstream")]}
}

func genC10(t *rapid.T) CaseC10 {
	cfg := gkit.GenCfg{MaxNodes: 6, Depth: 1, Cycles: true, NoFailMix: true, Paradigms: true, State: true, SubModes: []string{"pregel", "dag", "workflow"}}
	mode := []string{"pregel", "pregel", "dag", "workflow"}[rapid.IntRange(0, 3).Draw(t, "mode")]
	c := CaseC10{Spec: gkit.GenTop(t, mode, cfg)}
	c.Input = gkit.GenInput(t, c.Spec.In)
	c.Paradigm = []string{"invoke", "stream", "invoke", "stream", "collect", "transform"}[rapid.IntRange(0, 5).Draw(t, "paradigm")]
	// gate the top-level lambdas (they may then overlap and finish in a generated order)
	var tags []string
	allLambdas(c.Spec, "", false, func(n *gkit.NodeSpec, tag string, nm bool) {
		tags = append(tags, tag)
		if !strings.Contains(tag, "/") {
			n.Gate = true
		}
	})
	for i := rapid.IntRange(0, 2).Draw(t, "nGlobal"); i > 0; i-- {
		c.Global = append(c.Global, genH(t))
	}
	for i := rapid.IntRange(0, 4).Draw(t, "nOpts"); i > 0; i-- {
		var hs []H10
		for j := rapid.IntRange(1, 3).Draw(t, "nH"); j > 0; j-- {
			hs = append(hs, genH(t))
		}
		c.PerCall = append(c.PerCall, hs)
	}
	if len(tags) > 0 {
		nd := rapid.IntRange(0, 4).Draw(t, "nDesignated")
		for i := 0; i < nd; i++ {
			d := D10{Tag: tags[rapid.IntRange(0, len(tags)-1).Draw(t, "dtag")], H: H10{Stream: []string{"all", "prefix", "close"}[rapid.IntRange(0, 2).Draw(t, "dstream")]}}
			if rapid.IntRange(0, 3).Draw(t, "twoPaths") == 0 {
				if t2 := tags[rapid.IntRange(0, len(tags)-1).Draw(t, "dtag2")]; t2 != d.Tag {
					d.Tag2 = t2
				}
			}
			c.Designated = append(c.Designated, d)
		}
	}
	for i := 0; i < 8; i++ {
		c.Release = append(c.Release, rapid.IntRange(0, 7).Draw(t, "rel"))
	}
	c.OneArray = rapid.IntRange(0, 2).Draw(t, "oneArray") == 0
	return c
}

var c10Mu sync.Mutex // global handlers are process-wide state

func checkC10(c CaseC10) (*vkit.Failure, vkit.Meta) {
	var m vkit.Meta
	if c.Spec == nil {
		return nil, m
	}
	c10Mu.Lock()
	defer c10Mu.Unlock()
	defer callbacks.InitCallbackHandlers(nil)
	f := vkit.Guard("panic-escaped", func() *vkit.Failure {
		in := fixInput(c.Spec, c.Input)
		ref := gkit.Ref(c.Spec, "", in, gkit.RefOpts{})
		m.Labels = append(m.Labels, "mode:"+c.Spec.Mode, "paradigm:"+c.Paradigm, "ref:"+refClass(ref))
		if ref.Fail != "" || ref.Ambiguous || len(ref.Optional) > 0 || len(ref.OptionalNodes) > 0 {
			m.Labels = append(m.Labels, "not-a-clean-run-skipped")
			return nil
		}
		rec := &rec10{}
		var gl []callbacks.Handler
		for i, d := range c.Global {
			gl = append(gl, mkHandler(fmt.Sprintf("G%d", i), d, rec))
		}
		callbacks.InitCallbackHandlers(gl)
		ctx := context.Background()
		bo := &gkit.BuildOpts{ExtraComp: []compose.GraphCompileOption{compose.WithGraphName("TOP")}}
		r, err := gkit.Compile(ctx, c.Spec, bo)
		if err != nil {
			return vkit.Failf("compile-rejected-wellformed-graph", "Compile failed: %v", err)
		}
		var opts []compose.Option
		fullUndesignated := []string{}
		partialIDs := map[string]bool{}
		for i, d := range c.Global {
			id := fmt.Sprintf("G%d", i)
			if d.Partial {
				partialIDs[id] = true
			} else {
				fullUndesignated = append(fullUndesignated, id)
			}
		}
		perCallCount := 0
		perCallLists := make([][]callbacks.Handler, len(c.PerCall))
		for oi, hs := range c.PerCall {
			for hi, d := range hs {
				id := fmt.Sprintf("P%d.%d", oi, hi)
				perCallLists[oi] = append(perCallLists[oi], mkHandler(id, d, rec))
				perCallCount++
				if d.Partial {
					partialIDs[id] = true
				} else {
					fullUndesignated = append(fullUndesignated, id)
				}
			}
		}
		designated := map[string]map[string]bool{} // handler id -> tags
		desHandlers := make([]callbacks.Handler, len(c.Designated))
		desPaths := make([][]*compose.NodePath, len(c.Designated))
		for i, d := range c.Designated {
			id := fmt.Sprintf("D%d", i)
			designated[id] = map[string]bool{d.Tag: true}
			paths := []*compose.NodePath{compose.NewNodePath(strings.Split(d.Tag, "/")...)}
			if d.Tag2 != "" {
				designated[id][d.Tag2] = true
				paths = append(paths, compose.NewNodePath(strings.Split(d.Tag2, "/")...))
			}
			desHandlers[i], desPaths[i] = mkHandler(id, d.H, rec), paths
		}
		if c.OneArray {
			m.Labels = append(m.Labels, "handlers-passed-as-sub-slices-of-one-array")
			var all []callbacks.Handler
			type span struct{ lo, hi int }
			pc := make([]span, len(perCallLists))
			ds := make([]span, len(desHandlers))
			put := func(hs ...callbacks.Handler) span {
				lo := len(all)
				all = append(all, hs...)
				return span{lo, len(all)}
			}
			for oi := range perCallLists {
				if oi == 0 {
					pc[oi] = put(perCallLists[oi]...)
					for i := range desHandlers {
						ds[i] = put(desHandlers[i])
					}
					continue
				}
				pc[oi] = put(perCallLists[oi]...)
			}
			if len(perCallLists) == 0 {
				for i := range desHandlers {
					ds[i] = put(desHandlers[i])
				}
			}
			all = append(all, nil)[:len(all)] // the array itself has room to spare too
			for oi := range perCallLists {
				opts = append(opts, compose.WithCallbacks(all[pc[oi].lo:pc[oi].hi]...))
			}
			for i := range desHandlers {
				opts = append(opts, compose.WithCallbacks(all[ds[i].lo:ds[i].hi]...).DesignateNodeWithPath(desPaths[i]...))
			}
		} else {
			for oi := range perCallLists {
				opts = append(opts, compose.WithCallbacks(perCallLists[oi]...))
			}
			for i := range desHandlers {
				opts = append(opts, compose.WithCallbacks(desHandlers[i]).DesignateNodeWithPath(desPaths[i]...))
			}
		}
		env := gkit.NewEnv("c10")
		env.MaxRunsPerNode = 400
		env.Ctl = gkit.NewController()
		done := make(chan struct{})
		var out any
		var rerr error
		go func() {
			defer close(done)
			defer func() {
				if p := recover(); p != nil {
					rerr = fmt.Errorf("panic: %v", p)
				}
			}()
			out, rerr = runSpec(ctx, r, env, CaseGraph{Spec: c.Spec, Input: in, Paradigm: c.Paradigm}, opts...)
		}()
		// release gated bodies in the generated order once the set of waiting bodies is quiescent
		overlapped := 0
		k := 0
		deadline := time.Now().Add(30 * time.Second)
	loop:
		for {
			select {
			case <-done:
				break loop
			default:
			}
			w1 := env.Ctl.Waiting()
			if len(w1) == 0 {
				time.Sleep(50 * time.Microsecond)
				if time.Now().After(deadline) {
					env.Ctl.ReleaseAll()
				}
				continue
			}
			time.Sleep(150 * time.Microsecond)
			w2 := env.Ctl.Waiting()
			if len(w2) != len(w1) {
				continue
			}
			if len(w2) > overlapped {
				overlapped = len(w2)
			}
			pick := w2[c.Release[k%len(c.Release)]%len(w2)]
			k++
			env.Ctl.Release(pick)
		}
		env.Ctl.ReleaseAll()
		rec.wg.Wait()
		if rerr != nil {
			return vkit.Failf("run-failed-with-handlers", "the reference predicts a clean run, with callback handlers attached it failed: %s", shortErr(rerr))
		}
		if gkit.Canon(out) != gkit.Canon(ref.Out) {
			return &vkit.Failure{Kind: "handlers-disturb-flow", Sig: "handlers-disturb-flow", Msg: fmt.Sprintf("output %q, reference %q: reading/closing handler stream copies changed the data flowing through the graph", vkit.Short(gkit.Canon(out), 200), vkit.Short(gkit.Canon(ref.Out), 200))}
		}
		// expected units
		type unit struct{ in, out string }
		lambdaUnits := map[string][]unit{}
		kindOfTag := map[string]*gkit.NodeSpec{}
		allLambdas(c.Spec, "", false, func(n *gkit.NodeSpec, tag string, nm bool) { kindOfTag[tag] = n })
		for _, e := range ref.Execs {
			n := kindOfTag[e.Node]
			if n == nil {
				continue
			}
			lambdaUnits[e.Node] = append(lambdaUnits[e.Node], unit{e.In, gkit.F(e.Node, n.Digest, e.In)})
		}
		graphRuns := map[string]int{"TOP": 1}
		var walk func(sp *gkit.Spec, path string)
		walk = func(sp *gkit.Spec, path string) {
			for i := range sp.Nodes {
				n := &sp.Nodes[i]
				if n.Kind == "graph" {
					graphRuns[path+n.Key] = ref.NodeRuns[path+n.Key]
					walk(n.Sub, path+n.Key+"/")
				}
			}
		}
		walk(c.Spec, "")
		rec.mu.Lock()
		evs := append([]ev10(nil), rec.evs...)
		rec.mu.Unlock()
		byH := map[string][]ev10{}
		for _, e := range evs {
			byH[e.h] = append(byH[e.h], e)
		}
		checkUnits := func(hid string, names map[string]bool, exact bool) *vkit.Failure {
			starts, ends := map[string][]ev10{}, map[string][]ev10{}
			for _, e := range byH[hid] {
				if !names[e.name] {
					if exact {
						return &vkit.Failure{Kind: "handler-invoked-for-foreign-unit", Sig: "handler-invoked-for-foreign-unit", Msg: fmt.Sprintf("handler %s (applies to %v) was invoked at %s for unit %q", hid, keys(names), e.timing, e.name)}
					}
					continue
				}
				if e.timing == "start" {
					starts[e.name] = append(starts[e.name], e)
				} else {
					ends[e.name] = append(ends[e.name], e)
				}
			}
			for name := range names {
				want := 0
				if us, ok := lambdaUnits[name]; ok {
					want = len(us)
				} else {
					want = graphRuns[name]
				}
				if partialIDs[hid] {
					if len(starts[name]) > want || len(ends[name]) > want {
						return &vkit.Failure{Kind: "callback-count", Sig: "callback-count", Msg: fmt.Sprintf("handler %s (value timings only): unit %q executed %d times, handler saw %d starts / %d ends", hid, name, want, len(starts[name]), len(ends[name]))}
					}
					continue
				}
				if len(starts[name]) != want || len(ends[name]) != want {
					return &vkit.Failure{Kind: "callback-count", Sig: "callback-count", Msg: fmt.Sprintf("handler %s: unit %q executed %d times, handler saw %d start-type and %d end-type events", hid, name, want, len(starts[name]), len(ends[name]))}
				}
				// payloads of lambda units (value payloads, and stream payloads read to the end)
				if us, ok := lambdaUnits[name]; ok {
					var wantIn, wantOut, gotIn, gotOut []string
					inComplete, outComplete := true, true
					for _, u := range us {
						wantIn = append(wantIn, u.in)
						wantOut = append(wantOut, u.out)
					}
					for _, e := range starts[name] {
						if e.stream && !e.read {
							inComplete = false
						}
						gotIn = append(gotIn, e.payload)
					}
					for _, e := range ends[name] {
						if e.stream && !e.read {
							outComplete = false
						}
						gotOut = append(gotOut, e.payload)
					}
					sort.Strings(wantIn)
					sort.Strings(wantOut)
					sort.Strings(gotIn)
					sort.Strings(gotOut)
					if inComplete && fmt.Sprint(gotIn) != fmt.Sprint(wantIn) {
						return &vkit.Failure{Kind: "callback-payload", Sig: "callback-payload", Msg: fmt.Sprintf("handler %s: start payloads of %q are %q, the unit consumed %q", hid, name, gotIn, wantIn)}
					}
					if outComplete && fmt.Sprint(gotOut) != fmt.Sprint(wantOut) {
						return &vkit.Failure{Kind: "callback-payload", Sig: "callback-payload", Msg: fmt.Sprintf("handler %s: end payloads of %q are %q, the unit produced %q", hid, name, gotOut, wantOut)}
					}
				}
			}
			return nil
		}
		allNames := map[string]bool{}
		for name := range lambdaUnits {
			allNames[name] = true
		}
		for name := range graphRuns {
			allNames[name] = true
		}
		for _, hid := range append(fullUndesignated, keysB(partialIDs)...) {
			if f := checkUnits(hid, allNames, false); f != nil {
				return f
			}
		}
		for hid, tagset := range designated {
			if f := checkUnits(hid, tagset, true); f != nil {
				return f
			}
		}
		desigParallel := 0
		sameNode := false
		seenTag := map[string]bool{}
		for _, tagset := range designated {
			for tag := range tagset {
				if !strings.Contains(tag, "/") && len(lambdaUnits[tag]) > 0 {
					desigParallel++
				}
				if seenTag[tag] && len(lambdaUnits[tag]) > 0 {
					sameNode = true
				}
				seenTag[tag] = true
			}
		}
		if sameNode {
			m.Labels = append(m.Labels, "several-options-designate-one-node")
		}
		if overlapped >= 2 {
			m.Labels = append(m.Labels, "gated-bodies-overlapped")
		}
		earlyClose := false
		for _, hs := range c.PerCall {
			for _, d := range hs {
				if d.Stream != "all" && !d.Partial {
					earlyClose = true
				}
			}
		}
		m.NonTrivial = (desigParallel >= 2 && overlapped >= 2 && len(c.PerCall) >= 2) || (c.Paradigm == "stream" && earlyClose && len(ref.Execs) >= 2)
		return nil
	})
	return f, m
}

func keys(m map[string]bool) []string {
	var out []string
	for k := range m {
		out = append(out, k)
	}
	sort.Strings(out)
	return out
}

func keysB(m map[string]bool) []string { return keys(m) }

func TestC10(t *testing.T) {
	rec := vkit.NewRecorder("C10")
	vkit.Prop(t, rec, genC10, checkC10)
}

func TestC10Replay(t *testing.T) {
	vkit.Replay(t, "C10", checkC10)
}
