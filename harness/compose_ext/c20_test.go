package compose_test

// C20: ill-formed constructions are rejected with an error (never a panic), the first error
// sticks, the same construction sequence gives the same outcome on every attempt, and a
// compiled graph can no longer be modified while its runnable stays unaffected.
//
// Generated: sequences of Add*/Append*/Compile calls over Graph, Chain and Workflow builders with
// keys drawn from a pool that contains reserved, duplicate and unknown keys, every violation
// kind of the statement at any position, further calls after a successful Compile, and the
// whole sequence replayed several times on fresh builders.
// Oracle: (1) no call panics; (2) a reference well-formedness predicate written from the list in
// the statement: if the sequence contains one of those violations, some call up to and including
// Compile must have returned an error (nothing is asserted the other way round); (3) sticky:
// after the first failing Add* every later Add* and Compile fails; (4) the index of the first
// failing call and the success of Compile are the same in every replay; (5) after a successful
// Compile every Add* fails and the runnable answers the sample inputs as before, also after a
// second Compile of the same builder.

import (
	"context"
	"errors"
	"fmt"
	"sort"
	"strings"
	"sync/atomic"
	"testing"
	"time"

	"github.com/cloudwego/eino/compose"
	"github.com/cloudwego/eino/internal/vkit"
	rapid "github.com/cloudwego/eino/internal/vrapid"
	"github.com/cloudwego/eino/schema"
)

type Op20 struct {
	K    string   `json:"k"` // node | edge | branch | compile | parallel | chainbranch | input | dep | wfbranch | end
	A    string   `json:"a,omitempty"`
	B    string   `json:"b,omitempty"`
	Ts   []string `json:"ts,omitempty"`
	Kind string   `json:"kind,omitempty"` // node kind: lambda | pass | graph
	Opt  string   `json:"opt,omitempty"`  // "", prehandler, nodekey, outputkey
	Mode string   `json:"mode,omitempty"` // compile: "", dag
	Max  int      `json:"max,omitempty"`  // compile: max run steps (0 = none)
	GS   bool     `json:"gs,omitempty"`   // compile: WithGetStateEnable-like invalid option (state enable outside workflow)
	Map  string   `json:"map,omitempty"`  // workflow input: "" whole, else ToField(key)
	Flav string   `json:"flav,omitempty"` // workflow input: "", nocontrol
}

type CaseC20 struct {
	Builder string `json:"builder"` // graph | chain | workflow
	State   bool   `json:"state,omitempty"`
	Ops     []Op20 `json:"ops"`
}

type c20State struct{ N int }

var keyPool = []string{"a", "b", "c", "d", "e", "start", "end", "zz"}

type c20BudgetKey struct{}

type c20Budget struct {
	n      int32
	cancel context.CancelFunc
}

// every lambda execution spends budget; a run that executes implausibly many nodes is cancelled
// (turns a run-away run into an ordinary error instead of a hanging check)
func spend(ctx context.Context) {
	if b, ok := ctx.Value(c20BudgetKey{}).(*c20Budget); ok {
		if atomic.AddInt32(&b.n, 1) > 300 {
			b.cancel()
		}
	}
}

func c20Lambda(tag string) *compose.Lambda {
	return compose.InvokableLambda(func(ctx context.Context, in string) (string, error) {
		spend(ctx)
		return tag + "(" + in + ")", nil
	})
}

func c20MapLambda(tag string) *compose.Lambda {
	return compose.InvokableLambda(func(ctx context.Context, in map[string]any) (string, error) {
		spend(ctx)
		ks := make([]string, 0, len(in))
		for k := range in {
			ks = append(ks, k)
		}
		sort.Strings(ks)
		var sb strings.Builder
		for _, k := range ks {
			sb.WriteString(fmt.Sprintf("%s=%v;", k, in[k]))
		}
		return tag + "{" + sb.String() + "}", nil
	})
}

// c20In is a struct typed node input, fed through field mappings (ToField("K") / static "L").
type c20In struct {
	K string
	L string
}

func c20StructLambda(tag string) *compose.Lambda {
	return compose.InvokableLambda(func(ctx context.Context, in c20In) (string, error) {
		spend(ctx)
		return tag + "{K=" + in.K + ";L=" + in.L + "}", nil
	})
}

func c20Sub() *compose.Graph[string, string] {
	g := compose.NewGraph[string, string]()
	_ = g.AddLambdaNode("s", c20Lambda("s"))
	_ = g.AddEdge(compose.START, "s")
	_ = g.AddEdge("s", compose.END)
	return g
}

func c20Branch(ts []string) *compose.GraphBranch {
	ends := map[string]bool{}
	for _, t := range ts {
		ends[t] = true
	}
	sorted := append([]string(nil), ts...)
	sort.Strings(sorted)
	return compose.NewGraphBranch(func(ctx context.Context, in string) (string, error) {
		if len(sorted) == 0 {
			return "", nil
		}
		return sorted[len(in)%len(sorted)], nil
	}, ends)
}

// call is the outcome of one API call.
type call20 struct {
	op     string
	err    error
	panicV any
}

func guard20(op string, fn func() error) (c call20) {
	c.op = op
	defer func() {
		if p := recover(); p != nil {
			c.panicV = p
		}
	}()
	c.err = fn()
	return c
}

type runner20 interface {
	Invoke(ctx context.Context, in string, opts ...compose.Option) (string, error)
}

type result20 struct {
	calls       []call20
	isAdd       []bool // the call is an Add* (has an error result of its own)
	compileIdx  []int  // indices of compile calls
	compiled    []runner20
	compileErr  []error
	violation   string // first violation of the reference predicate ("" if none)
	postCompile int    // number of Add* calls made after the first successful compile
	postFailed  int    // of those, how many failed
	samples     [][]string
}

func sample(r runner20) []string {
	var out []string
	for _, in := range []string{"x", "yy", ""} {
		func() {
			defer func() {
				if p := recover(); p != nil {
					out = append(out, fmt.Sprintf("panic:%v", p))
				}
			}()
			ctx, cancel := context.WithCancel(context.Background())
			defer cancel()
			b := &c20Budget{cancel: cancel}
			o, err := r.Invoke(context.WithValue(ctx, c20BudgetKey{}, b), in)
			if atomic.LoadInt32(&b.n) > 300 {
				out = append(out, "runaway: more than 300 node executions in one run")
				return
			}
			if err != nil {
				// error texts may list map-ordered details; keep the stable head
				e := strings.ReplaceAll(err.Error(), "\n", " ")
				if len(e) > 70 {
					e = e[:70]
				}
				out = append(out, "err:"+e)
			} else {
				out = append(out, o)
			}
		}()
	}
	return out
}

func compileName(op Op20) string { return fmt.Sprintf("Compile %s max=%d", op.Mode, op.Max) }

func compileOpts(op Op20) []compose.GraphCompileOption {
	var opts []compose.GraphCompileOption
	if op.Mode == "dag" {
		opts = append(opts, compose.WithNodeTriggerMode(compose.AllPredecessor))
	}
	if op.Mode == "any" {
		// the default mode of a Graph, spelled out: fine for a Graph, an invalid option for a Chain or a Workflow
		opts = append(opts, compose.WithNodeTriggerMode(compose.AnyPredecessor))
	}
	if op.Max > 0 {
		opts = append(opts, compose.WithMaxRunSteps(op.Max))
	}
	return opts
}

// isHandlerOpt: the node option attaches a state handler (any of the four kinds).
func isHandlerOpt(o string) bool {
	switch o {
	case "prehandler", "posthandler", "streamprehandler", "streamposthandler", "bothhandlers":
		return true
	}
	return false
}

func nodeOpts20(op Op20, state bool) []compose.GraphAddNodeOpt {
	var opts []compose.GraphAddNodeOpt
	switch op.Opt {
	case "prehandler":
		opts = append(opts, compose.WithStatePreHandler(func(ctx context.Context, in string, s *c20State) (string, error) { return in, nil }))
	case "posthandler":
		opts = append(opts, compose.WithStatePostHandler(func(ctx context.Context, out string, s *c20State) (string, error) { return out, nil }))
	case "streamprehandler":
		opts = append(opts, compose.WithStreamStatePreHandler(func(ctx context.Context, in *schema.StreamReader[string], s *c20State) (*schema.StreamReader[string], error) {
			return in, nil
		}))
	case "streamposthandler":
		opts = append(opts, compose.WithStreamStatePostHandler(func(ctx context.Context, out *schema.StreamReader[string], s *c20State) (*schema.StreamReader[string], error) {
			return out, nil
		}))
	case "bothhandlers":
		opts = append(opts, compose.WithStatePreHandler(func(ctx context.Context, in string, s *c20State) (string, error) { return in, nil }),
			compose.WithStatePostHandler(func(ctx context.Context, out string, s *c20State) (string, error) { return out, nil }))
	case "nodekey":
		opts = append(opts, compose.WithNodeKey("k_"+op.A))
	}
	return opts
}

// ---------- Graph ----------

func runGraph20(c CaseC20) *result20 {
	res := &result20{}
	var newOpts []compose.NewGraphOption
	if c.State {
		newOpts = append(newOpts, compose.WithGenLocalState(func(ctx context.Context) *c20State { return &c20State{} }))
	}
	g := compose.NewGraph[string, string](newOpts...)
	// reference bookkeeping
	nodes := map[string]string{} // key -> kind
	edges := map[string]bool{}
	hasEntry, hasExit := false, false
	succ := map[string][]string{}
	viol := func(v string) {
		if res.violation == "" {
			res.violation = v
		}
	}
	compiledOK := false
	for _, op := range c.Ops {
		switch op.K {
		case "node":
			cl := guard20("AddNode "+op.A+" "+op.Kind+" "+op.Opt, func() error {
				opts := nodeOpts20(op, c.State)
				switch op.Kind {
				case "pass":
					if isHandlerOpt(op.Opt) {
						opts = nil // a pass-through pre-handler must be typed any; keep this kind simple
					}
					return g.AddPassthroughNode(op.A, opts...)
				case "graph":
					return g.AddGraphNode(op.A, c20Sub(), opts...)
				default:
					return g.AddLambdaNode(op.A, c20Lambda(op.A), opts...)
				}
			})
			res.calls = append(res.calls, cl)
			res.isAdd = append(res.isAdd, true)
			if !compiledOK {
				switch {
				case op.A == "start" || op.A == "end":
					viol("reserved node key")
				case nodes[op.A] != "":
					viol("duplicate node key")
				case isHandlerOpt(op.Opt) && !c.State && op.Kind != "pass":
					viol("state handler without state")
				case op.Opt == "nodekey":
					viol("node key option outside chain")
				default:
					if cl.err == nil {
						nodes[op.A] = op.Kind
					}
				}
			}
		case "edge":
			cl := guard20("AddEdge "+op.A+"->"+op.B, func() error { return g.AddEdge(op.A, op.B) })
			res.calls = append(res.calls, cl)
			res.isAdd = append(res.isAdd, true)
			if !compiledOK {
				_, fromOK := nodes[op.A]
				_, toOK := nodes[op.B]
				switch {
				case op.A == "end":
					viol("END as edge source")
				case op.B == "start":
					viol("START as edge target")
				case !fromOK && op.A != "start":
					viol("edge from unknown node")
				case !toOK && op.B != "end":
					viol("edge to unknown node")
				case edges[op.A+">"+op.B]:
					viol("duplicate edge")
				default:
					if cl.err == nil {
						edges[op.A+">"+op.B] = true
						succ[op.A] = append(succ[op.A], op.B)
						if op.A == "start" {
							hasEntry = true
						}
						if op.B == "end" {
							hasExit = true
						}
					}
				}
			}
		case "branch":
			cl := guard20(fmt.Sprintf("AddBranch %s->%v", op.A, op.Ts), func() error { return g.AddBranch(op.A, c20Branch(op.Ts)) })
			res.calls = append(res.calls, cl)
			res.isAdd = append(res.isAdd, true)
			if !compiledOK {
				_, fromOK := nodes[op.A]
				distinct := map[string]bool{}
				unknown := false
				for _, t := range op.Ts {
					distinct[t] = true
					if _, ok := nodes[t]; !ok && t != "end" {
						unknown = true
					}
				}
				switch {
				case op.A == "end":
					viol("END as branch source")
				case !fromOK && op.A != "start":
					viol("branch from unknown node")
				case len(distinct) == 1:
					viol("single-target branch")
				case unknown:
					viol("branch to unknown node")
				default:
					if cl.err == nil {
						for t := range distinct {
							succ[op.A] = append(succ[op.A], t)
							if op.A == "start" {
								hasEntry = true
							}
							if t == "end" {
								hasExit = true
							}
						}
					}
				}
			}
		case "compile":
			var r compose.Runnable[string, string]
			cl := guard20(compileName(op), func() error {
				var err error
				r, err = g.Compile(context.Background(), compileOpts(op)...)
				return err
			})
			res.calls = append(res.calls, cl)
			res.isAdd = append(res.isAdd, false)
			res.compileIdx = append(res.compileIdx, len(res.calls)-1)
			res.compileErr = append(res.compileErr, cl.err)
			if !compiledOK {
				if !hasEntry {
					viol("no entry edge")
				}
				if !hasExit {
					viol("no exit edge")
				}
				if op.Mode == "dag" {
					if op.Max > 0 {
						viol("max steps in all-predecessor mode")
					}
					if hasCycle(succ) {
						viol("cycle in all-predecessor mode")
					}
				}
				// pass-through nodes without any typed neighbour chain cannot be inferred; with all other
				// nodes typed string and START/END typed, a pass-through is un-inferable only when it has
				// no edge at all to a typed node: approximated by "pass-through node without any edge"
				for k, kind := range nodes {
					if kind == "pass" {
						connected := false
						for e := range edges {
							if strings.HasPrefix(e, k+">") || strings.HasSuffix(e, ">"+k) {
								connected = true
							}
						}
						_ = connected // not asserted: inference rules are C07's business
					}
				}
			}
			if cl.err == nil && cl.panicV == nil && r != nil {
				if !compiledOK {
					compiledOK = true
				}
				res.compiled = append(res.compiled, r)
				res.samples = append(res.samples, sample(r))
			}
			continue
		}
		if compiledOK {
			res.postCompile++
			last := res.calls[len(res.calls)-1]
			if last.err != nil {
				res.postFailed++
			}
		}
	}
	return res
}

func hasCycle(succ map[string][]string) bool {
	color := map[string]int{}
	var visit func(n string) bool
	visit = func(n string) bool {
		color[n] = 1
		for _, m := range succ[n] {
			if m == "end" {
				continue
			}
			if color[m] == 1 {
				return true
			}
			if color[m] == 0 && visit(m) {
				return true
			}
		}
		color[n] = 2
		return false
	}
	keys := make([]string, 0, len(succ))
	for k := range succ {
		keys = append(keys, k)
	}
	sort.Strings(keys)
	for _, k := range keys {
		if color[k] == 0 && visit(k) {
			return true
		}
	}
	return false
}

// ---------- Chain ----------

func runChain20(c CaseC20) *result20 {
	res := &result20{}
	var newOpts []compose.NewGraphOption
	if c.State {
		newOpts = append(newOpts, compose.WithGenLocalState(func(ctx context.Context) *c20State { return &c20State{} }))
	}
	ch := compose.NewChain[string, string](newOpts...)
	viol := func(v string) {
		if res.violation == "" {
			res.violation = v
		}
	}
	prev := "none" // none | node | parallel | branch
	cur := "S"     // type flowing
	stages := 0
	compiledOK := false
	usedKeys := map[string]bool{}
	for _, op := range c.Ops {
		switch op.K {
		case "node":
			cl := guard20("Append "+op.Kind+" "+op.Opt, func() error {
				opts := nodeOpts20(op, c.State)
				switch op.Kind {
				case "pass":
					if isHandlerOpt(op.Opt) {
						opts = nil
					}
					ch.AppendPassthrough(opts...)
				case "graph":
					ch.AppendGraph(c20Sub(), opts...)
				default:
					if cur == "M" {
						ch.AppendLambda(c20MapLambda(op.A), opts...)
					} else {
						ch.AppendLambda(c20Lambda(op.A), opts...)
					}
				}
				return nil
			})
			res.calls = append(res.calls, cl)
			res.isAdd = append(res.isAdd, false) // chain errors are deferred to Compile
			if !compiledOK {
				if isHandlerOpt(op.Opt) && !c.State && op.Kind != "pass" {
					viol("state handler without state")
				}
				if op.Opt == "nodekey" {
					k := "k_" + op.A
					if usedKeys[k] {
						viol("duplicate node key")
					}
					usedKeys[k] = true
				}
				if op.Kind == "graph" && cur == "M" {
					viol("type mismatch (map into string graph)") // concrete mismatch: must be rejected (C07 too)
				}
				if op.Kind != "pass" {
					cur = "S"
				}
				prev = "node"
				stages++
			}
		case "parallel":
			n := len(op.Ts)
			cl := guard20(fmt.Sprintf("AppendParallel %v", op.Ts), func() error {
				p := compose.NewParallel()
				for _, k := range op.Ts {
					if cur == "M" {
						p.AddLambda(k, c20MapLambda(k))
					} else {
						p.AddLambda(k, c20Lambda(k))
					}
				}
				ch.AppendParallel(p)
				return nil
			})
			res.calls = append(res.calls, cl)
			res.isAdd = append(res.isAdd, false)
			if !compiledOK {
				distinct := map[string]bool{}
				for _, k := range op.Ts {
					distinct[k] = true
				}
				switch {
				case n <= 1:
					viol("parallel with fewer than two nodes")
				case len(distinct) != n:
					viol("parallel with duplicate output keys")
				case prev == "parallel" || prev == "branch":
					viol("parallel after parallel/branch")
				}
				prev = "parallel"
				cur = "M"
				stages++
			}
		case "chainbranch":
			cl := guard20(fmt.Sprintf("AppendBranch %v", op.Ts), func() error {
				var cb *compose.ChainBranch
				ks := append([]string(nil), op.Ts...)
				sort.Strings(ks)
				if cur == "M" {
					cb = compose.NewChainBranch(func(ctx context.Context, in map[string]any) (string, error) {
						if len(ks) == 0 {
							return "", nil
						}
						return ks[len(in)%len(ks)], nil
					})
				} else {
					cb = compose.NewChainBranch(func(ctx context.Context, in string) (string, error) {
						if len(ks) == 0 {
							return "", nil
						}
						return ks[len(in)%len(ks)], nil
					})
				}
				for _, k := range op.Ts {
					if cur == "M" {
						cb.AddLambda(k, c20MapLambda(k))
					} else {
						cb.AddLambda(k, c20Lambda(k))
					}
				}
				ch.AppendBranch(cb)
				return nil
			})
			res.calls = append(res.calls, cl)
			res.isAdd = append(res.isAdd, false)
			if !compiledOK {
				distinct := map[string]bool{}
				for _, k := range op.Ts {
					distinct[k] = true
				}
				switch {
				case len(distinct) != len(op.Ts):
					viol("branch with duplicate keys")
				case len(op.Ts) <= 1:
					viol("single-target branch")
				case prev == "parallel" || prev == "branch":
					viol("branch after parallel/branch")
				}
				prev = "branch"
				cur = "S"
				stages++
			}
		case "compile":
			var r compose.Runnable[string, string]
			cl := guard20(compileName(op), func() error {
				var err error
				r, err = ch.Compile(context.Background(), compileOpts(op)...)
				return err
			})
			res.calls = append(res.calls, cl)
			res.isAdd = append(res.isAdd, false)
			res.compileIdx = append(res.compileIdx, len(res.calls)-1)
			res.compileErr = append(res.compileErr, cl.err)
			if !compiledOK {
				if stages == 0 {
					viol("empty chain")
				}
				if op.Mode != "" {
					viol("node trigger mode on a chain")
				}
				if cur == "M" {
					viol("type mismatch (map output into string END)")
				}
			}
			if cl.err == nil && cl.panicV == nil && r != nil {
				compiledOK = true
				res.compiled = append(res.compiled, r)
				res.samples = append(res.samples, sample(r))
			}
			continue
		}
		if compiledOK {
			res.postCompile++
		}
	}
	return res
}

// ---------- Workflow ----------

func runWorkflow20(c CaseC20) *result20 {
	res := &result20{}
	var newOpts []compose.NewGraphOption
	if c.State {
		newOpts = append(newOpts, compose.WithGenLocalState(func(ctx context.Context) *c20State { return &c20State{} }))
	}
	wf := compose.NewWorkflow[string, string](newOpts...)
	wnodes := map[string]*compose.WorkflowNode{}
	kinds := map[string]string{}
	viol := func(v string) {
		if res.violation == "" {
			res.violation = v
		}
	}
	compiledOK := false
	hasEntry, hasExit := false, false
	var deferred []func()
	wfData, wfCtl := map[string]bool{}, map[string]bool{}
	wfSucc := map[string][]string{} // every connection (data, control or both) and every branch target
	for _, op := range c.Ops {
		switch op.K {
		case "node":
			cl := guard20("AddNode "+op.A+" "+op.Kind, func() error {
				opts := nodeOpts20(op, c.State)
				switch op.Kind {
				case "map":
					wnodes[op.A] = wf.AddLambdaNode(op.A, c20MapLambda(op.A), opts...)
				case "struct":
					wnodes[op.A] = wf.AddLambdaNode(op.A, c20StructLambda(op.A), opts...)
				case "graph":
					wnodes[op.A] = wf.AddGraphNode(op.A, c20Sub(), opts...)
				default:
					wnodes[op.A] = wf.AddLambdaNode(op.A, c20Lambda(op.A), opts...)
				}
				return nil
			})
			res.calls = append(res.calls, cl)
			res.isAdd = append(res.isAdd, false)
			if !compiledOK {
				switch {
				case op.A == "start" || op.A == "end":
					viol("reserved node key")
				case kinds[op.A] != "":
					viol("duplicate node key")
				case isHandlerOpt(op.Opt) && !c.State:
					viol("state handler without state")
				case op.Opt == "nodekey":
					viol("node key option outside chain")
				default:
					kinds[op.A] = op.Kind
					if kinds[op.A] == "" {
						kinds[op.A] = "lambda"
					}
				}
			}
		case "input", "dep":
			cl := guard20(op.K+" "+op.A+"->"+op.B, func() error {
				var to *compose.WorkflowNode
				if op.B == "end" {
					to = wf.End()
				} else {
					to = wnodes[op.B]
				}
				if to == nil {
					return nil // no handle to call the method on: not expressible through the API
				}
				if op.K == "dep" {
					to.AddDependency(op.A)
					return nil
				}
				var maps []*compose.FieldMapping
				if op.Map != "" {
					maps = append(maps, compose.ToField(op.Map))
				}
				if op.Flav == "nocontrol" {
					to.AddInputWithOptions(op.A, maps, compose.WithNoDirectDependency())
				} else {
					to.AddInput(op.A, maps...)
				}
				return nil
			})
			res.calls = append(res.calls, cl)
			res.isAdd = append(res.isAdd, false)
			if !compiledOK {
				_, toOK := wnodes[op.B]
				if op.B == "end" {
					toOK = true
				}
				if toOK {
					_, fromOK := kinds[op.A]
					from := op.A
					if from != "start" {
						// the Workflow API resolves node references at Compile: judge them there
						deferred = append(deferred, func() {
							if _, ok := kinds[from]; !ok {
								viol("input from unknown node")
							}
						})
					}
					if op.A == "end" {
						viol("END as source")
					}
					// the same pair connected twice: a second data connection (input after input / data-only input)
					// or a second control connection (input or dependency after input or dependency)
					pair := op.A + "->" + op.B
					data := op.K == "input"
					ctl := op.K == "dep" || (op.K == "input" && op.Flav != "nocontrol")
					if (data && wfData[pair]) || (ctl && wfCtl[pair]) {
						viol("duplicate edge")
					}
					if data {
						wfData[pair] = true
					}
					if ctl {
						wfCtl[pair] = true
					}
					wfSucc[op.A] = append(wfSucc[op.A], op.B)
					fromOK = true
					if fromOK || op.A == "start" {
						if op.A == "start" && op.Flav != "nocontrol" {
							hasEntry = true
						}
						if op.B == "end" && op.Flav != "nocontrol" {
							hasExit = true
						}
					}
				}
			}
		case "static":
			cl := guard20("SetStaticValue "+op.A+"."+op.Map, func() error {
				if n := wnodes[op.A]; n != nil {
					n.SetStaticValue(compose.FieldPath{op.Map}, "static")
				}
				return nil
			})
			res.calls = append(res.calls, cl)
			res.isAdd = append(res.isAdd, false)
		case "wfbranch":
			cl := guard20(fmt.Sprintf("AddBranch %s->%v", op.A, op.Ts), func() error {
				wf.AddBranch(op.A, c20Branch(op.Ts))
				return nil
			})
			res.calls = append(res.calls, cl)
			res.isAdd = append(res.isAdd, false)
			if !compiledOK {
				_, fromOK := kinds[op.A]
				distinct := map[string]bool{}
				unknown := false
				for _, t := range op.Ts {
					distinct[t] = true
					if _, ok := kinds[t]; !ok && t != "end" {
						unknown = true
					}
				}
				_ = fromOK
				_ = unknown
				from, ts := op.A, append([]string(nil), op.Ts...)
				wfSucc[from] = append(wfSucc[from], ts...)
				switch {
				case op.A == "end":
					viol("END as branch source")
				case len(distinct) == 1:
					viol("single-target branch")
				default:
					deferred = append(deferred, func() {
						if _, ok := kinds[from]; !ok && from != "start" {
							viol("branch from unknown node")
						}
						for _, t := range ts {
							if _, ok := kinds[t]; !ok && t != "end" {
								viol("branch to unknown node")
							}
						}
					})
				}
			}
		case "compile":
			if !compiledOK {
				for _, d := range deferred {
					d()
				}
				// workflows always run in all-predecessor mode: a cycle through connections of any kind (data-only,
				// control-only, both) or branch targets can never start
				if hasCycle(wfSucc) {
					viol("cycle in all-predecessor mode")
				}
			}
			var r compose.Runnable[string, string]
			cl := guard20(compileName(op), func() error {
				var err error
				r, err = wf.Compile(context.Background(), compileOpts(op)...)
				return err
			})
			res.calls = append(res.calls, cl)
			res.isAdd = append(res.isAdd, false)
			res.compileIdx = append(res.compileIdx, len(res.calls)-1)
			res.compileErr = append(res.compileErr, cl.err)
			if !compiledOK {
				if !hasEntry {
					viol("no entry edge")
				}
				if !hasExit {
					viol("no exit edge")
				}
				if op.Mode != "" {
					viol("node trigger mode on a workflow")
				}
				if op.Max > 0 {
					viol("max steps in all-predecessor mode")
				}
			}
			if cl.err == nil && cl.panicV == nil && r != nil {
				compiledOK = true
				res.compiled = append(res.compiled, r)
				res.samples = append(res.samples, sample(r))
			}
			continue
		}
		if compiledOK {
			res.postCompile++
		}
	}
	return res
}

func run20(c CaseC20) *result20 {
	switch c.Builder {
	case "chain":
		return runChain20(c)
	case "workflow":
		return runWorkflow20(c)
	}
	return runGraph20(c)
}

func outcomeKey(r *result20) string {
	first := -1
	for i, cl := range r.calls {
		if cl.err != nil || cl.panicV != nil {
			first = i
			break
		}
	}
	var comp []string
	for _, e := range r.compileErr {
		comp = append(comp, fmt.Sprint(e == nil))
	}
	return fmt.Sprintf("first-failing-call=%d compile-ok=%v", first, comp)
}

var c20Rec *vkit.Recorder

func checkC20(c CaseC20) (*vkit.Failure, vkit.Meta) {
	if c20Rec == nil {
		return checkC20Inner(c)
	}
	c20Rec.Current(c)
	defer c20Rec.ClearCurrent()
	var m vkit.Meta
	f := vkit.Watchdog(c20Rec, c, 40*time.Second, nil, func() *vkit.Failure {
		var f *vkit.Failure
		f, m = checkC20Inner(c)
		return f
	})
	return f, m
}

func checkC20Inner(c CaseC20) (*vkit.Failure, vkit.Meta) {
	m := vkit.Meta{Labels: []string{"builder:" + c.Builder}}
	if len(c.Ops) == 0 {
		return nil, m
	}
	const replays = 5
	var first *result20
	var firstKey string
	for k := 0; k < replays; k++ {
		r := run20(c)
		// (1) no panics
		for i, cl := range r.calls {
			if cl.panicV != nil {
				return &vkit.Failure{Kind: "construction-panic", Sig: "construction-panic:" + strings.Fields(cl.op)[0], Msg: fmt.Sprintf("call #%d %q panicked: %v", i, cl.op, cl.panicV)}, m
			}
		}
		key := outcomeKey(r)
		if k == 0 {
			first, firstKey = r, key
		} else if key != firstKey {
			return &vkit.Failure{Kind: "construction-nondeterministic", Sig: "construction-nondeterministic", Msg: fmt.Sprintf("replay %d of the same call sequence: %s; first attempt: %s (errors: %v vs %v)", k, key, firstKey, lastErr(r), lastErr(first))}, m
		}
	}
	r := first
	if r.violation != "" {
		m.Labels = append(m.Labels, "violation:"+r.violation)
	} else {
		m.Labels = append(m.Labels, "no-listed-violation")
	}
	// (2) listed violations must be reported by the end of the first Compile
	if r.violation != "" && len(r.compileIdx) > 0 {
		reported := false
		for i := 0; i <= r.compileIdx[0]; i++ {
			if r.calls[i].err != nil {
				reported = true
			}
		}
		if !reported {
			return &vkit.Failure{Kind: "ill-formed-accepted", Sig: "ill-formed-accepted:" + r.violation, Msg: fmt.Sprintf("the sequence contains %q, yet every call up to and including Compile succeeded", r.violation)}, m
		}
	}
	// (3) sticky
	firstFail := -1
	for i, cl := range r.calls {
		if cl.err != nil && r.isAdd[i] && !errors.Is(cl.err, compose.ErrGraphCompiled) && !errors.Is(cl.err, compose.ErrChainCompiled) {
			firstFail = i
			break
		}
	}
	if firstFail >= 0 {
		for i := firstFail + 1; i < len(r.calls); i++ {
			isCompile := false
			for _, ci := range r.compileIdx {
				if ci == i {
					isCompile = true
				}
			}
			if (r.isAdd[i] || isCompile) && r.calls[i].err == nil {
				return &vkit.Failure{Kind: "error-not-sticky", Sig: "error-not-sticky", Msg: fmt.Sprintf("call #%d %q failed (%v) but later call #%d %q succeeded", firstFail, r.calls[firstFail].op, r.calls[firstFail].err, i, r.calls[i].op)}, m
			}
		}
	}
	// (3b) the same Compile (same options, nothing successfully added in between) gives the same verdict:
	// a rejected construction is not accepted at the second attempt
	for a := 0; a < len(r.compileIdx); a++ {
		for b := a + 1; b < len(r.compileIdx); b++ {
			i, j := r.compileIdx[a], r.compileIdx[b]
			if r.calls[i].op != r.calls[j].op {
				continue
			}
			changed := false
			for k := i + 1; k < j; k++ {
				if r.calls[k].err == nil {
					changed = true
				}
			}
			if changed {
				continue
			}
			if r.calls[i].err != nil && r.calls[j].err == nil {
				return &vkit.Failure{Kind: "compile-verdict-changes", Sig: "compile-verdict-changes", Msg: fmt.Sprintf("Compile call #%d rejected the construction (%v); the identical Compile call #%d on the same builder accepted it", i, r.calls[i].err, j)}, m
			}
			if r.calls[i].err != nil {
				m.Labels = append(m.Labels, "rejected-compile-repeated")
			}
		}
	}
	// (5) immutability after a successful compile
	if len(r.compiled) > 0 {
		m.Labels = append(m.Labels, "compiled")
		if c.Builder == "graph" && r.postCompile > 0 && r.postFailed != r.postCompile {
			return &vkit.Failure{Kind: "modified-after-compile", Sig: "modified-after-compile", Msg: fmt.Sprintf("%d of %d Add* calls made after a successful Compile were accepted", r.postCompile-r.postFailed, r.postCompile)}, m
		}
		if r.postCompile > 0 {
			m.Labels = append(m.Labels, "calls-after-compile")
		}
		if len(r.compiled) > 1 {
			m.Labels = append(m.Labels, "compiled-twice")
		}
		for _, smp := range r.samples {
			for _, o := range smp {
				if strings.HasPrefix(o, "runaway:") {
					return &vkit.Failure{Kind: "compiled-graph-runs-forever", Sig: "compiled-graph-runs-forever", Msg: "a run of the compiled object executed more than 300 nodes (no step limit stopped it): " + o}, m
				}
			}
		}
		// the first runnable must answer as it did right after its compilation
		now := sample(r.compiled[0])
		if fmt.Sprint(now) != fmt.Sprint(r.samples[0]) {
			return &vkit.Failure{Kind: "runnable-affected-by-later-calls", Sig: "runnable-affected-by-later-calls", Msg: fmt.Sprintf("the runnable of the first Compile answered %q, after %d later calls (%d more Compile) it answers %q", r.samples[0], r.postCompile, len(r.compiled)-1, now)}, m
		}
	}
	m.NonTrivial = len(c.Ops) >= 6 && (len(r.compiled) > 0 || firstFailIdx(r) > 1)
	return nil, m
}

func firstFailIdx(r *result20) int {
	for i, cl := range r.calls {
		if cl.err != nil {
			return i
		}
	}
	return -1
}

func lastErr(r *result20) string {
	for i := len(r.calls) - 1; i >= 0; i-- {
		if r.calls[i].err != nil {
			return fmt.Sprintf("#%d %s: %s", i, r.calls[i].op, vkit.Short(r.calls[i].err.Error(), 160))
		}
	}
	return "<none>"
}

func genC20(t *rapid.T) CaseC20 {
	c := CaseC20{Builder: []string{"graph", "graph", "chain", "workflow"}[rapid.IntRange(0, 3).Draw(t, "builder")]}
	c.State = rapid.IntRange(0, 3).Draw(t, "state") == 0
	key := func(l string) string { return keyPool[rapid.IntRange(0, len(keyPool)-1).Draw(t, l)] }
	goodKey := func(l string) string { return keyPool[rapid.IntRange(0, 4).Draw(t, l)] }
	wild := rapid.IntRange(0, 2).Draw(t, "wild") == 0 // wild: keys from the whole pool; else mostly well-formed
	k := func(l string) string {
		if wild || rapid.IntRange(0, 11).Draw(t, "slip") == 0 {
			return key(l)
		}
		return goodKey(l)
	}
	targets := func() []string {
		n := rapid.IntRange(0, 3).Draw(t, "nT")
		if !wild && n < 2 {
			n = 2
		}
		var ts []string
		for i := 0; i < n; i++ {
			ts = append(ts, k("t"))
		}
		return ts
	}
	opt := func() string {
		if rapid.IntRange(0, 7).Draw(t, "hasOpt") == 0 {
			return []string{"prehandler", "nodekey", "posthandler", "streamprehandler", "streamposthandler", "bothhandlers"}[rapid.IntRange(0, 5).Draw(t, "opt")]
		}
		return ""
	}
	compile := func() Op20 {
		op := Op20{K: "compile"}
		switch rapid.IntRange(0, 7).Draw(t, "dag") {
		case 0, 1:
			op.Mode = "dag"
		case 2:
			op.Mode = "any"
		}
		if rapid.IntRange(0, 4).Draw(t, "max") == 0 {
			op.Max = rapid.IntRange(1, 30).Draw(t, "maxV")
		}
		return op
	}
	n := rapid.IntRange(3, 22).Draw(t, "nOps")
	switch c.Builder {
	case "graph":
		// a well-formed skeleton first (with some probability), then random ops
		if !wild {
			c.Ops = append(c.Ops, Op20{K: "node", A: "a", Kind: "lambda"}, Op20{K: "edge", A: "start", B: "a"}, Op20{K: "edge", A: "a", B: "end"})
		}
		added := []string{}
		if !wild {
			added = append(added, "a")
		}
		if !wild && rapid.IntRange(0, 11).Draw(t, "passChain") == 0 {
			// a chain of pass-through nodes that can only be typed backwards (from END), the typing edge added last:
			// well-formed, so every attempt must accept it
			c.Ops = append(c.Ops, Op20{K: "node", A: "b", Kind: "pass"}, Op20{K: "node", A: "c", Kind: "pass"})
			if rapid.Bool().Draw(t, "threePass") {
				c.Ops = append(c.Ops, Op20{K: "node", A: "d", Kind: "pass"}, Op20{K: "edge", A: "d", B: "b"})
			}
			c.Ops = append(c.Ops, Op20{K: "edge", A: "b", B: "c"}, Op20{K: "edge", A: "c", B: "end"}, Op20{K: "compile", Mode: "pregel"})
			return c
		}
		if !wild && rapid.IntRange(0, 11).Draw(t, "scenario") == 0 {
			// a node entered twice from the same source (edge + branch, or two branches), optionally on a
			// cycle, compiled in all-predecessor mode: cycle detection must not be fooled by the double entry
			c.Ops = append(c.Ops, Op20{K: "node", A: "b", Kind: "lambda"}, Op20{K: "node", A: "c", Kind: "lambda"})
			if rapid.Bool().Draw(t, "entryByEdge") {
				c.Ops = append(c.Ops, Op20{K: "edge", A: "a", B: "b"})
			} else {
				c.Ops = append(c.Ops, Op20{K: "branch", A: "a", Ts: []string{"b", "end"}})
			}
			c.Ops = append(c.Ops, Op20{K: "branch", A: "a", Ts: []string{"b", "c"}})
			c.Ops = append(c.Ops, Op20{K: "edge", A: "b", B: "c"})
			if rapid.Bool().Draw(t, "cycle") {
				c.Ops = append(c.Ops, Op20{K: "edge", A: "c", B: "b"})
			}
			c.Ops = append(c.Ops, Op20{K: "edge", A: "c", B: "end"})
			c.Ops = append(c.Ops, Op20{K: "compile", Mode: "dag"})
			return c
		}
		// tidy: references mostly point at nodes that exist, so that a single violation stands alone
		pickFrom := func(l string) string {
			if wild || len(added) == 0 || rapid.IntRange(0, 14).Draw(t, "slipF") == 0 {
				return k(l)
			}
			if rapid.IntRange(0, 4).Draw(t, "fromStart") == 0 {
				return "start"
			}
			return added[rapid.IntRange(0, len(added)-1).Draw(t, l)]
		}
		pickTo := func(l string) string {
			if wild || len(added) == 0 || rapid.IntRange(0, 14).Draw(t, "slipT") == 0 {
				return k(l)
			}
			if rapid.IntRange(0, 4).Draw(t, "toEnd") == 0 {
				return "end"
			}
			return added[rapid.IntRange(0, len(added)-1).Draw(t, l)]
		}
		for i := 0; i < n; i++ {
			switch rapid.IntRange(0, 9).Draw(t, "op") {
			case 0, 1, 2:
				nk := k("nk")
				if !wild && rapid.IntRange(0, 9).Draw(t, "dupNode") != 0 {
					for _, cand := range keyPool[:5] {
						fresh := true
						for _, a := range added {
							if a == cand {
								fresh = false
							}
						}
						if fresh {
							nk = cand
							break
						}
					}
				}
				added = append(added, nk)
				c.Ops = append(c.Ops, Op20{K: "node", A: nk, Kind: []string{"lambda", "lambda", "pass", "graph"}[rapid.IntRange(0, 3).Draw(t, "kind")], Opt: opt()})
			case 3, 4, 5, 6:
				var prior []Op20
				for _, o := range c.Ops {
					if o.K == "edge" {
						prior = append(prior, o)
					}
				}
				special := rapid.IntRange(0, 11).Draw(t, "edgeSpecial")
				if len(prior) > 0 && special <= 1 {
					// repeat an earlier edge (any of them, not only the first one of its source)
					c.Ops = append(c.Ops, prior[rapid.IntRange(0, len(prior)-1).Draw(t, "which")])
				} else if len(prior) > 0 && special == 2 {
					// close a cycle over an existing edge
					e := prior[rapid.IntRange(0, len(prior)-1).Draw(t, "which")]
					if e.A != "start" && e.B != "end" {
						c.Ops = append(c.Ops, Op20{K: "edge", A: e.B, B: e.A})
					}
				} else if len(prior) > 0 && special == 3 && len(added) >= 2 {
					// a second entry into the target of an existing edge: a branch of the same source
					e := prior[rapid.IntRange(0, len(prior)-1).Draw(t, "which")]
					other := added[rapid.IntRange(0, len(added)-1).Draw(t, "otherT")]
					if e.B != "end" || other != "end" {
						c.Ops = append(c.Ops, Op20{K: "branch", A: e.A, Ts: []string{e.B, other}})
					}
				} else {
					c.Ops = append(c.Ops, Op20{K: "edge", A: pickFrom("ef"), B: pickTo("et")})
				}
			case 7:
				ts := targets()
				if !wild {
					for i := range ts {
						ts[i] = pickTo("bt")
					}
				}
				c.Ops = append(c.Ops, Op20{K: "branch", A: pickFrom("bf"), Ts: ts})
			default:
				c.Ops = append(c.Ops, compile())
			}
		}
	case "chain":
		for i := 0; i < n; i++ {
			switch rapid.IntRange(0, 9).Draw(t, "op") {
			case 0, 1, 2, 3, 4:
				c.Ops = append(c.Ops, Op20{K: "node", A: fmt.Sprintf("n%d", i), Kind: []string{"lambda", "lambda", "pass", "graph"}[rapid.IntRange(0, 3).Draw(t, "kind")], Opt: opt()})
			case 5, 6:
				c.Ops = append(c.Ops, Op20{K: "parallel", Ts: targets()})
			case 7:
				c.Ops = append(c.Ops, Op20{K: "chainbranch", Ts: targets()})
			default:
				c.Ops = append(c.Ops, compile())
			}
		}
	case "workflow":
		if rapid.IntRange(0, 9).Draw(t, "mixedCycle") == 0 {
			// a two-node cycle whose two connections are of generated kinds (plain / data-only / control-only)
			kind := func(l, from, to string) Op20 {
				switch rapid.IntRange(0, 2).Draw(t, l) {
				case 0:
					return Op20{K: "input", A: from, B: to, Map: "k"}
				case 1:
					return Op20{K: "input", A: from, B: to, Map: "k", Flav: "nocontrol"}
				}
				return Op20{K: "dep", A: from, B: to}
			}
			c.Ops = append(c.Ops, Op20{K: "node", A: "a", Kind: "map"}, Op20{K: "node", A: "b", Kind: "map"},
				Op20{K: "input", A: "start", B: "a", Map: "s"}, kind("ab", "a", "b"), kind("ba", "b", "a"), Op20{K: "input", A: "b", B: "end"}, Op20{K: "compile"})
			return c
		}
		if rapid.IntRange(0, 7).Draw(t, "doubleConnection") == 0 {
			// a well-formed workflow in which one pair of nodes is connected twice, in every combination of
			// plain input / data-only input / dependency, the two inputs mapped to different fields
			flav := func(l string) Op20 {
				switch rapid.IntRange(0, 2).Draw(t, l) {
				case 0:
					return Op20{K: "input", A: "a", B: "b"}
				case 1:
					return Op20{K: "input", A: "a", B: "b", Flav: "nocontrol"}
				}
				return Op20{K: "dep", A: "a", B: "b"}
			}
			first, second := flav("first"), flav("second")
			if first.K == "input" {
				first.Map = "k"
			}
			if second.K == "input" {
				second.Map = "k2"
			}
			c.Ops = append(c.Ops, Op20{K: "node", A: "a", Kind: "lambda"}, Op20{K: "node", A: "b", Kind: "map"},
				Op20{K: "input", A: "start", B: "a"}, first, second, Op20{K: "input", A: "b", B: "end"})
			if first.K != "input" && second.K != "input" {
				c.Ops = append(c.Ops, Op20{K: "input", A: "start", B: "b", Map: "k", Flav: "nocontrol"})
			}
			c.Ops = append(c.Ops, Op20{K: "compile"})
			return c
		}
		continueSkeleton := true
		if !wild {
			switch rapid.IntRange(0, 3).Draw(t, "skeleton") {
			case 0:
				// a node fed through field mappings (map typed input)
				c.Ops = append(c.Ops, Op20{K: "node", A: "a", Kind: "map"}, Op20{K: "input", A: "start", B: "a", Map: "k"}, Op20{K: "input", A: "a", B: "end"})
				continueSkeleton = false
			case 1:
				// struct typed input through a field mapping, optionally with a static value
				c.Ops = append(c.Ops, Op20{K: "node", A: "a", Kind: "struct"}, Op20{K: "input", A: "start", B: "a", Map: "K"}, Op20{K: "input", A: "a", B: "end"})
				if rapid.Bool().Draw(t, "static") {
					c.Ops = append(c.Ops, Op20{K: "static", A: "a", Map: "L"})
				}
				continueSkeleton = false
			}
			if continueSkeleton {
				c.Ops = append(c.Ops, Op20{K: "node", A: "a", Kind: "lambda"}, Op20{K: "input", A: "start", B: "a"}, Op20{K: "input", A: "a", B: "end"})
			}
		}
		for i := 0; i < n; i++ {
			switch rapid.IntRange(0, 9).Draw(t, "op") {
			case 0, 1, 2:
				c.Ops = append(c.Ops, Op20{K: "node", A: k("nk"), Kind: []string{"lambda", "lambda", "map", "graph"}[rapid.IntRange(0, 3).Draw(t, "kind")], Opt: opt()})
			case 3, 4, 5:
				op := Op20{K: "input", A: k("if"), B: k("it")}
				if rapid.IntRange(0, 2).Draw(t, "mapped") == 0 {
					op.Map = k("mk")
				}
				if rapid.IntRange(0, 3).Draw(t, "nocontrol") == 0 {
					op.Flav = "nocontrol"
				}
				c.Ops = append(c.Ops, op)
			case 6:
				c.Ops = append(c.Ops, Op20{K: "dep", A: k("df"), B: k("dt")})
			case 7:
				c.Ops = append(c.Ops, Op20{K: "wfbranch", A: k("bf"), Ts: targets()})
			default:
				c.Ops = append(c.Ops, compile())
			}
		}
	}
	// the sequence always ends with a Compile; often followed by more calls and another Compile
	c.Ops = append(c.Ops, compile())
	if rapid.IntRange(0, 2).Draw(t, "compileAgain") == 0 {
		// the very same Compile once more: same construction, same options, same outcome
		c.Ops = append(c.Ops, c.Ops[len(c.Ops)-1])
	}
	if rapid.IntRange(0, 1).Draw(t, "after") == 0 {
		switch c.Builder {
		case "graph":
			c.Ops = append(c.Ops, Op20{K: "node", A: goodKey("pk"), Kind: "lambda"}, Op20{K: "edge", A: "start", B: goodKey("pe")})
		case "chain":
			c.Ops = append(c.Ops, Op20{K: "node", A: "late", Kind: "lambda"})
		case "workflow":
			c.Ops = append(c.Ops, Op20{K: "node", A: goodKey("pk"), Kind: "lambda"}, Op20{K: "input", A: "start", B: goodKey("pe")})
		}
		if rapid.IntRange(0, 1).Draw(t, "recompile") == 0 {
			c.Ops = append(c.Ops, compile())
		}
	}
	return c
}

func TestC20(t *testing.T) {
	c20Rec = vkit.NewRecorder("C20")
	vkit.Prop(t, c20Rec, genC20, checkC20)
}

func TestC20Replay(t *testing.T) {
	c20Rec = vkit.NewRecorder("C20")
	vkit.Replay(t, "C20", checkC20)
}
