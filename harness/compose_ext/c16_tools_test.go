package compose_test

// C16 (tools nodes): tool options passed with a call reach the tools of exactly the tools nodes they address.
// Generated: a graph START -> t1 (tools node) -> END, optionally inside a parent graph (node "sub"); 1-4 option
// groups per call, each compose.WithToolsNodeOption(compose.WithToolOption(values...)), undesignated or
// designated to the tools node (by key or path) or to another node; Invoke or Stream.
// Oracle: the tool receives the values of every group addressed to its node, in order; a group designated
// elsewhere must make the call fail (unknown node) or not reach the tool.

import (
	"context"
	"fmt"
	"strings"
	"testing"

	"github.com/cloudwego/eino/components/tool"
	"github.com/cloudwego/eino/compose"
	"github.com/cloudwego/eino/internal/vkit"
	rapid "github.com/cloudwego/eino/internal/vrapid"
	"github.com/cloudwego/eino/schema"
)

type topts16 struct{ vs []string }

func topt16(v string) tool.Option {
	return tool.WrapImplSpecificOptFn(func(o *topts16) { o.vs = append(o.vs, v) })
}

type rtool16 struct{ got *[]string }

func (t *rtool16) Info(ctx context.Context) (*schema.ToolInfo, error) {
	return &schema.ToolInfo{Name: "rt", Desc: "records its options"}, nil
}

func (t *rtool16) InvokableRun(ctx context.Context, args string, opts ...tool.Option) (string, error) {
	o := tool.GetImplSpecificOptions(&topts16{}, opts...)
	*t.got = append(*t.got, o.vs...)
	return "ok", nil
}

type Group16 struct {
	Vals  []string `json:"vals"`
	Where string   `json:"where"` // "" undesignated | node (the tools node, by key / path) | sub (the sub graph node, nested only) | unknown
}

type CaseC16T struct {
	Nested bool      `json:"nested"`
	Groups []Group16 `json:"groups"`
	Stream bool      `json:"stream"`
}

func genC16T(t *rapid.T) CaseC16T {
	c := CaseC16T{Nested: rapid.Bool().Draw(t, "nested"), Stream: rapid.Bool().Draw(t, "stream")}
	for i := rapid.IntRange(1, 4).Draw(t, "nGroups"); i > 0; i-- {
		g := Group16{}
		for j := rapid.IntRange(1, 2).Draw(t, "nVals"); j > 0; j-- {
			g.Vals = append(g.Vals, fmt.Sprintf("g%dv%d", len(c.Groups), j))
		}
		wh := []string{"", "", "node", "node", "sub", "unknown"}
		g.Where = wh[rapid.IntRange(0, len(wh)-1).Draw(t, "where")]
		if g.Where == "sub" && !c.Nested {
			g.Where = "node"
		}
		c.Groups = append(c.Groups, g)
	}
	return c
}

func checkC16T(c CaseC16T) (*vkit.Failure, vkit.Meta) {
	var m vkit.Meta
	if len(c.Groups) == 0 {
		return nil, m
	}
	f := vkit.Guard("panic-escaped", func() *vkit.Failure {
		ctx := context.Background()
		var got []string
		tn, err := compose.NewToolNode(ctx, &compose.ToolsNodeConfig{Tools: []tool.BaseTool{&rtool16{got: &got}}})
		if err != nil {
			return vkit.Failf("harness", "NewToolNode: %v", err)
		}
		inner := compose.NewGraph[*schema.Message, []*schema.Message]()
		_ = inner.AddToolsNode("t1", tn)
		_ = inner.AddEdge(compose.START, "t1")
		_ = inner.AddEdge("t1", compose.END)
		var r compose.Runnable[*schema.Message, []*schema.Message]
		if c.Nested {
			parent := compose.NewGraph[*schema.Message, []*schema.Message]()
			_ = parent.AddGraphNode("sub", inner)
			_ = parent.AddEdge(compose.START, "sub")
			_ = parent.AddEdge("sub", compose.END)
			r, err = parent.Compile(ctx)
		} else {
			r, err = inner.Compile(ctx)
		}
		if err != nil {
			return vkit.Failf("harness", "Compile: %v", err)
		}
		var opts []compose.Option
		var want []string
		wantErr := false
		for _, g := range c.Groups {
			var tos []tool.Option
			for _, v := range g.Vals {
				tos = append(tos, topt16(v))
			}
			o := compose.WithToolsNodeOption(compose.WithToolOption(tos...))
			switch g.Where {
			case "":
				want = append(want, g.Vals...)
			case "node":
				if c.Nested {
					o = o.DesignateNodeWithPath(compose.NewNodePath("sub", "t1"))
				} else {
					o = o.DesignateNode("t1")
				}
				want = append(want, g.Vals...)
			case "sub":
				o = o.DesignateNode("sub")
				want = append(want, g.Vals...)
			default:
				o = o.DesignateNode("nosuchnode")
				wantErr = true
			}
			opts = append(opts, o)
		}
		msg := &schema.Message{Role: schema.Assistant, ToolCalls: []schema.ToolCall{{ID: "c0", Type: "function", Function: schema.FunctionCall{Name: "rt", Arguments: "{}"}}}}
		var rerr error
		if c.Stream {
			sr, e := r.Stream(ctx, msg, opts...)
			rerr = e
			if e == nil {
				for {
					if _, e := sr.Recv(); e != nil {
						if e.Error() != "EOF" {
							rerr = e
						}
						break
					}
				}
				sr.Close()
			}
		} else {
			_, rerr = r.Invoke(ctx, msg, opts...)
		}
		if wantErr {
			m.Labels = append(m.Labels, "misuse:unknown-node")
			if rerr == nil {
				return vkit.Failf("option-misuse-accepted", "a tools-node option designated to an unknown node was accepted")
			}
			return nil
		}
		if rerr != nil {
			return vkit.Failf("valid-options-rejected", "the call uses tools-node options correctly but failed: %s", shortErr(rerr))
		}
		if strings.Join(got, ",") != strings.Join(want, ",") {
			return &vkit.Failure{Kind: "option-routing", Sig: "tool-option-routing", Msg: fmt.Sprintf("the tool received tool options %v; the %d tools-node option groups addressed to its node carry %v", got, len(c.Groups), want)}
		}
		m.NonTrivial = len(c.Groups) >= 2
		if c.Nested {
			m.Labels = append(m.Labels, "nested")
		}
		return nil
	})
	return f, m
}

func TestC16Tools(t *testing.T) {
	rec := vkit.NewRecorder("C16")
	vkit.Prop(t, rec, genC16T, checkC16T)
}

func TestC16ToolsReplay(t *testing.T) {
	vkit.Replay(t, "C16", checkC16T)
}
