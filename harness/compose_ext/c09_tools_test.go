package compose_test

// C09 (tools node): one compiled graph containing a ToolsNode called from several goroutines at once;
// some calls pass their own tool list with the WithToolList call option (tools of the same names whose
// output carries a per-call mark), the others use the configured tools; Invoke and Stream mixed.
// Oracle: every call is answered by its own tools (per-call list if given, configured list otherwise),
// one message per tool call in order; a later sequential call sees the configured tools again.

import (
	"context"
	"fmt"
	"sync"
	"testing"

	"github.com/cloudwego/eino/components/tool"
	"github.com/cloudwego/eino/compose"
	"github.com/cloudwego/eino/internal/vkit"
	rapid "github.com/cloudwego/eino/internal/vrapid"
	"github.com/cloudwego/eino/schema"
)

type CallT09 struct {
	Calls   []Call17 `json:"calls"`
	OwnList bool     `json:"ownlist"` // pass a per-call tool list
	Stream  bool     `json:"stream"`
}

type CaseC09T struct {
	Tools   []Tool17  `json:"tools"`
	Workers int       `json:"workers"`
	PerW    int       `json:"perw"`
	Plan    []CallT09 `json:"plan"` // one per call (worker-major)
}

func genC09T(t *rapid.T) CaseC09T {
	c := CaseC09T{Workers: rapid.IntRange(2, 6).Draw(t, "workers"), PerW: rapid.IntRange(1, 3).Draw(t, "perW")}
	nt := rapid.IntRange(2, 4).Draw(t, "nTools")
	for i := 0; i < nt; i++ {
		c.Tools = append(c.Tools, Tool17{Name: fmt.Sprintf("tool%d", i), Kind: []string{"inv", "str", "both"}[rapid.IntRange(0, 2).Draw(t, "kind")], Chunks: rapid.IntRange(1, 3).Draw(t, "chunks")})
	}
	for i := 0; i < c.Workers*c.PerW; i++ {
		p := CallT09{OwnList: rapid.IntRange(0, 2).Draw(t, "ownList") == 0, Stream: rapid.Bool().Draw(t, "stream")}
		for j := rapid.IntRange(1, 3).Draw(t, "nCalls"); j > 0; j-- {
			p.Calls = append(p.Calls, Call17{Tool: c.Tools[rapid.IntRange(0, nt-1).Draw(t, "tool")].Name, ID: fmt.Sprintf("k%d_%d", i, j), Args: rapid.StringMatching("[a-c]{0,2}").Draw(t, "args")})
		}
		c.Plan = append(c.Plan, p)
	}
	return c
}

func checkC09T(c CaseC09T) (*vkit.Failure, vkit.Meta) {
	var m vkit.Meta
	if len(c.Tools) == 0 || len(c.Plan) < c.Workers*c.PerW || c.Workers < 1 {
		return nil, m
	}
	f := vkit.Guard("panic-escaped", func() *vkit.Failure {
		ctx := context.Background()
		mk := func(mark string) []tool.BaseTool {
			var ts []tool.BaseTool
			for _, d := range c.Tools {
				d.Mark = mark
				ts = append(ts, mkTool(d))
			}
			return ts
		}
		tn, err := compose.NewToolNode(ctx, &compose.ToolsNodeConfig{Tools: mk("")})
		if err != nil {
			return vkit.Failf("harness", "NewToolNode: %v", err)
		}
		g := compose.NewGraph[*schema.Message, []*schema.Message]()
		if err := g.AddToolsNode("tools", tn); err != nil {
			return vkit.Failf("harness", "AddToolsNode: %v", err)
		}
		_ = g.AddEdge(compose.START, "tools")
		_ = g.AddEdge("tools", compose.END)
		r, err := g.Compile(ctx)
		if err != nil {
			return vkit.Failf("harness", "Compile: %v", err)
		}
		one := func(i int, p CallT09) ([]*schema.Message, error) {
			msg := &schema.Message{Role: schema.Assistant}
			for _, cl := range p.Calls {
				msg.ToolCalls = append(msg.ToolCalls, schema.ToolCall{ID: cl.ID, Type: "function", Function: schema.FunctionCall{Name: cl.Tool, Arguments: cl.Args}})
			}
			var opts []compose.Option
			if p.OwnList {
				opts = append(opts, compose.WithToolsNodeOption(compose.WithToolList(mk(fmt.Sprintf("r%d:", i))...)))
			}
			if !p.Stream {
				return r.Invoke(ctx, msg, opts...)
			}
			sr, err := r.Stream(ctx, msg, opts...)
			if err != nil {
				return nil, err
			}
			defer sr.Close()
			var chunks [][]*schema.Message
			for {
				ch, err := sr.Recv()
				if err != nil {
					if err.Error() == "EOF" {
						break
					}
					return nil, err
				}
				chunks = append(chunks, ch)
			}
			return joinSparse(chunks)
		}
		judge := func(i int, p CallT09, got []*schema.Message, err error, when string) *vkit.Failure {
			mark := ""
			if p.OwnList {
				mark = fmt.Sprintf("r%d:", i)
			}
			if err != nil {
				return &vkit.Failure{Kind: "concurrent-outcome", Sig: "concurrent-outcome", Msg: fmt.Sprintf("%s call %d (own tool list: %v) failed: %v", when, i, p.OwnList, err)}
			}
			if len(got) != len(p.Calls) {
				return &vkit.Failure{Kind: "concurrent-output", Sig: "concurrent-output", Msg: fmt.Sprintf("%s call %d: %d messages for %d tool calls", when, i, len(got), len(p.Calls))}
			}
			for k, cl := range p.Calls {
				want := mark + toolOut(cl.Tool, cl.Args)
				if got[k] == nil || got[k].Content != want || got[k].ToolCallID != cl.ID {
					g := "<nil>"
					if got[k] != nil {
						g = fmt.Sprintf("{id=%s content=%q}", got[k].ToolCallID, got[k].Content)
					}
					return &vkit.Failure{Kind: "concurrent-output", Sig: "tool-list-crossed", Msg: fmt.Sprintf("%s call %d (own tool list: %v): slot %d is %s, its own tools answer {id=%s content=%q}", when, i, p.OwnList, k, g, cl.ID, want)}
				}
			}
			return nil
		}
		n := c.Workers * c.PerW
		gots := make([][]*schema.Message, n)
		errs := make([]error, n)
		start := make(chan struct{})
		var wg sync.WaitGroup
		for w := 0; w < c.Workers; w++ {
			wg.Add(1)
			go func(w int) {
				defer wg.Done()
				<-start
				for k := 0; k < c.PerW; k++ {
					i := w*c.PerW + k
					func() {
						defer func() {
							if p := recover(); p != nil {
								errs[i] = fmt.Errorf("panic: %v", p)
							}
						}()
						gots[i], errs[i] = one(i, c.Plan[i])
					}()
				}
			}(w)
		}
		close(start)
		wg.Wait()
		own := 0
		for i := 0; i < n; i++ {
			if c.Plan[i].OwnList {
				own++
			}
			if f := judge(i, c.Plan[i], gots[i], errs[i], "concurrent"); f != nil {
				return f
			}
		}
		// afterwards the configured tools are in place again
		after := CallT09{Calls: c.Plan[0].Calls}
		got, err := one(n, after)
		if f := judge(n, after, got, err, "later sequential"); f != nil {
			return f
		}
		m.NonTrivial = n >= 3 && own >= 1 && own < n
		if own >= 1 {
			m.Labels = append(m.Labels, "per-call-tool-list")
		}
		return nil
	})
	return f, m
}

func TestC09Tools(t *testing.T) {
	rec := vkit.NewRecorder("C09")
	vkit.Prop(t, rec, genC09T, checkC09T)
}

func TestC09ToolsReplay(t *testing.T) {
	vkit.Replay(t, "C09", checkC09T)
}
