package gkit

import (
	"context"
	"fmt"
	"sort"
	"sync"
	"sync/atomic"

	"github.com/cloudwego/eino/compose"
	"github.com/cloudwego/eino/schema"
)

// GState is the graph state used by generated graphs with State == true.  All fields are
// serialisable, so it survives a byte-level checkpoint store.
type GState struct {
	Log   []string       // "pre:<tag>" / "post:<tag>" / "ps:<tag>" in the order the callbacks ran
	Count map[string]int // per tag: number of handler / ProcessState invocations
	Hold  map[string]string
	Gen   int // serial number given by the generator (distinguishes state objects)
}

func init() {
	_ = compose.RegisterSerializableType[GState]("gkit_gstate")
}

// StateMonitor observes mutual exclusion of state callbacks of one run.
type StateMonitor struct {
	perState  sync.Map // *GState -> *int32 (callbacks currently inside)
	inside    int32
	Overlaps  int32 // > 0: two callbacks were inside at once (violation)
	Entered   int32
	Contended int32 // a callback found the lock taken by a harness-visible holder (non-trivial marker)
	Yield     func()
}

type stateEnvKey struct{}

var stateGenCounter int64

// stateRegistry remembers which run created which state object (isolation checks).
var stateRegistry sync.Map // *GState -> call tag

func newGState(ctx context.Context) *GState {
	st := &GState{Count: map[string]int{}, Hold: map[string]string{}, Gen: int(atomic.AddInt64(&stateGenCounter, 1))}
	if env := EnvOf(ctx); env != nil {
		env.mu.Lock()
		env.StatesMade++
		env.mu.Unlock()
		stateRegistry.Store(st, env.Tag)
	}
	return st
}

// critical is the body of every state callback: it checks mutual exclusion and updates the state
// with a read - yield - write sequence so that a lost update becomes visible.
func critical(ctx context.Context, st *GState, what string) {
	env := EnvOf(ctx)
	var mon *StateMonitor
	if env != nil {
		mon = env.Mon
	}
	var insideCtr *int32
	if mon != nil {
		// mutual exclusion is per state object (a nested stateful graph has its own state and lock)
		v, _ := mon.perState.LoadOrStore(st, new(int32))
		insideCtr = v.(*int32)
		if atomic.AddInt32(insideCtr, 1) != 1 {
			atomic.AddInt32(&mon.Overlaps, 1)
		}
		atomic.AddInt32(&mon.Entered, 1)
	}
	if env != nil && st != nil {
		env.mu.Lock()
		if env.SeenStates == nil {
			env.SeenStates = map[string]*GState{}
		}
		gp := what[indexByte(what, ':')+1:]
		if i := lastIndexByte(gp, '/'); i >= 0 {
			gp = gp[:i+1]
		} else {
			gp = ""
		}
		env.SeenStates[gp] = st
		if env.SeenAll == nil {
			env.SeenAll = map[string][]*GState{}
		}
		known := false
		for _, o := range env.SeenAll[gp] {
			if o == st {
				known = true
			}
		}
		if !known {
			env.SeenAll[gp] = append(env.SeenAll[gp], st)
		}
		if ci := callOf(ctx); ci > 0 {
			if env.SeenCall == nil {
				env.SeenCall = map[*GState]int{}
			}
			if ci > env.SeenCall[st] {
				env.SeenCall[st] = ci
			}
		}
		env.seenSeq++
		if env.SeenSeq == nil {
			env.SeenSeq = map[string]int{}
		}
		env.SeenSeq[gp] = env.seenSeq
		env.mu.Unlock()
	}
	if st != nil {
		// the harness may read a state while a node that does not lead to END is still running after
		// the run returned: harness-side accesses are serialised by StateMu (the framework's own mutex
		// is what the monitor above checks)
		stateMuOf(env).Lock()
		c := st.Count[what]
		stateMuOf(env).Unlock()
		if mon != nil && mon.Yield != nil {
			mon.Yield()
		}
		stateMuOf(env).Lock()
		if st.Count == nil {
			st.Count = map[string]int{}
		}
		st.Count[what] = c + 1
		st.Log = append(st.Log, what)
		stateMuOf(env).Unlock()
	}
	if mon != nil {
		atomic.AddInt32(insideCtr, -1)
	}
}

// PreS / PostS are the value transformations of the state handlers (shared with the model).
func PreS(s string) string  { return "^" + s }
func PostS(s string) string { return s + "$" }

// MapLeaves applies f to every string leaf.
func MapLeaves(v any, f func(string) string) any {
	switch x := v.(type) {
	case string:
		return f(x)
	case map[string]any:
		if x == nil {
			return x
		}
		out := make(map[string]any, len(x))
		for k, e := range x {
			out[k] = MapLeaves(e, f)
		}
		return out
	}
	return v
}

// PreValue / PostValue: what a handler does to a value of either type.
func PreValue(v any) any  { return MapLeaves(v, PreS) }
func PostValue(v any) any { return MapLeaves(v, PostS) }

func castTo[T any](v any) T {
	x, _ := v.(T)
	return x
}

func stateHandlerOpts[I, O any](n *NodeSpec, tag string) []compose.GraphAddNodeOpt {
	var opts []compose.GraphAddNodeOpt
	switch n.PreH {
	case "r":
		// the documented pattern for nodes that ask for interrupt-and-rerun: remember the input in the
		// state, rebuild it from the state when the node is re-run with a zero input
		opts = append(opts, compose.WithStatePreHandler(func(ctx context.Context, in I, st *GState) (I, error) {
			critical(ctx, st, "pre:"+tag)
			if s, ok := any(in).(string); ok {
				if s == "" {
					return castTo[I](any(st.Hold[tag])), nil
				}
				if st.Hold == nil {
					st.Hold = map[string]string{}
				}
				st.Hold[tag] = s
			}
			return in, nil
		}))
	case "v":
		opts = append(opts, compose.WithStatePreHandler(func(ctx context.Context, in I, st *GState) (I, error) {
			critical(ctx, st, "pre:"+tag)
			if n.Fault == "preherr" {
				// the pre-handler itself fails: the node fails before its body starts
				return in, fmt.Errorf("wrapped: %w", &InjectedError{Node: tag, EOF: n.FaultEOF})
			}
			return castTo[I](PreValue(any(in))), nil
		}))
	case "s":
		opts = append(opts, compose.WithStreamStatePreHandler(func(ctx context.Context, in *schema.StreamReader[I], st *GState) (*schema.StreamReader[I], error) {
			critical(ctx, st, "pre:"+tag)
			if n.Fault == "preherr" {
				in.Close()
				return nil, fmt.Errorf("wrapped: %w", &InjectedError{Node: tag, EOF: n.FaultEOF})
			}
			return streamMap[I](in, PreValue), nil
		}))
	}
	switch n.PostH {
	case "v":
		opts = append(opts, compose.WithStatePostHandler(func(ctx context.Context, out O, st *GState) (O, error) {
			critical(ctx, st, "post:"+tag)
			return castTo[O](PostValue(any(out))), nil
		}))
	case "s":
		opts = append(opts, compose.WithStreamStatePostHandler(func(ctx context.Context, out *schema.StreamReader[O], st *GState) (*schema.StreamReader[O], error) {
			critical(ctx, st, "post:"+tag)
			return streamMap[O](out, PostValue), nil
		}))
	}
	return opts
}

// streamMap applies a leaf transformation to a stream.  Strings: the marker is attached to the
// first / last chunk by collecting (keeps the law concat(map f chunks) == f(concat chunks) simple
// and exact for both prefix and suffix markers); maps: collect, transform, emit one chunk.
func streamMap[T any](in *schema.StreamReader[T], f func(any) any) *schema.StreamReader[T] {
	cs, err := drain(in)
	if err != nil {
		sr, sw := schema.Pipe[T](1)
		var zero T
		sw.Send(zero, err)
		sw.Close()
		return sr
	}
	if len(cs) == 0 {
		return schema.StreamReaderFromArray([]T{})
	}
	v, cerr := ConcatAny(cs)
	if cerr != nil {
		sr, sw := schema.Pipe[T](1)
		var zero T
		sw.Send(zero, cerr)
		sw.Close()
		return sr
	}
	out := f(v)
	// re-chunk strings into two pieces so that downstream still sees a multi-chunk stream
	if s, ok := out.(string); ok && len(s) >= 2 {
		a, b := any(s[:len(s)/2]), any(s[len(s)/2:])
		return schema.StreamReaderFromArray([]T{castTo[T](a), castTo[T](b)})
	}
	return schema.StreamReaderFromArray([]T{castTo[T](out)})
}

func handlerOptsFor(n *NodeSpec, tag string) []compose.GraphAddNodeOpt {
	if n.PreH == "" && n.PostH == "" {
		return nil
	}
	switch n.EffIn() + n.EffOut() {
	case "SS":
		return stateHandlerOpts[string, string](n, tag)
	case "SM":
		return stateHandlerOpts[string, map[string]any](n, tag)
	case "MS":
		return stateHandlerOpts[map[string]any, string](n, tag)
	default:
		return stateHandlerOpts[map[string]any, map[string]any](n, tag)
	}
}

// SortedCount renders the counter map deterministically.
func (s *GState) SortedCount() []string {
	var out []string
	for k, v := range s.Count {
		out = append(out, k+"="+itoa(v))
	}
	sort.Strings(out)
	return out
}

func itoa(i int) string {
	if i == 0 {
		return "0"
	}
	neg := i < 0
	if neg {
		i = -i
	}
	var b []byte
	for i > 0 {
		b = append([]byte{byte('0' + i%10)}, b...)
		i /= 10
	}
	if neg {
		b = append([]byte{'-'}, b...)
	}
	return string(b)
}

func indexByte(s string, c byte) int {
	for i := 0; i < len(s); i++ {
		if s[i] == c {
			return i
		}
	}
	return -1
}

func lastIndexByte(s string, c byte) int {
	for i := len(s) - 1; i >= 0; i-- {
		if s[i] == c {
			return i
		}
	}
	return -1
}

var globalStateMu sync.Mutex

func stateMuOf(env *CallEnv) *sync.Mutex {
	if env == nil {
		return &globalStateMu
	}
	return &env.StateMu
}

// CountsOf returns a copy of the counters of a state, safe against callbacks still running.
func (e *CallEnv) CountsOf(st *GState) map[string]int {
	e.StateMu.Lock()
	defer e.StateMu.Unlock()
	out := make(map[string]int, len(st.Count))
	for k, v := range st.Count {
		out[k] = v
	}
	return out
}
