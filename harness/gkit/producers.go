package gkit

import (
	"sync"

	"github.com/cloudwego/eino/schema"
)

// Producers turns the output streams of node bodies (and the caller's input stream) into real
// producers: one goroutine per stream that sends the chunks into a Pipe of generated capacity and
// records whether it finished or was told that the reader is closed.  Used by the leak check (C19).
type Producers struct {
	mu   sync.Mutex
	Cap  int  // Pipe capacity
	Lazy bool // transforming bodies read their input inside the producer goroutine
	list []*ProdState
}

// ProdState is the observable life of one producer.
type ProdState struct {
	Node      string `json:"node"`
	Total     int    `json:"total"`
	Sent      int    `json:"sent"`
	Done      bool   `json:"done"`      // sent everything and closed its writer
	SawClosed bool   `json:"sawClosed"` // Send reported that the reader is closed
}

func (p *Producers) add(node string, total int) *ProdState {
	st := &ProdState{Node: node, Total: total}
	p.mu.Lock()
	p.list = append(p.list, st)
	p.mu.Unlock()
	return st
}

// Snapshot copies the states.
func (p *Producers) Snapshot() []ProdState {
	p.mu.Lock()
	defer p.mu.Unlock()
	out := make([]ProdState, len(p.list))
	for i, s := range p.list {
		out[i] = *s
	}
	return out
}

// Settled: every producer finished or saw closed.
func (p *Producers) Settled() bool {
	p.mu.Lock()
	defer p.mu.Unlock()
	for _, s := range p.list {
		if !s.Done && !s.SawClosed {
			return false
		}
	}
	return true
}

// producerLoop is the body of every producer goroutine (the name is looked for in goroutine dumps).
func producerLoop[T any](p *Producers, st *ProdState, sw *schema.StreamWriter[T], parts func() ([]T, error)) {
	defer sw.Close()
	ps, err := parts()
	if err != nil {
		var zero T
		sw.Send(zero, err)
		p.mu.Lock()
		st.Done = true
		p.mu.Unlock()
		return
	}
	p.mu.Lock()
	st.Total = len(ps)
	p.mu.Unlock()
	for _, x := range ps {
		if closed := sw.Send(x, nil); closed {
			p.mu.Lock()
			st.SawClosed = true
			p.mu.Unlock()
			return
		}
		p.mu.Lock()
		st.Sent++
		p.mu.Unlock()
	}
	p.mu.Lock()
	st.Done = true
	p.mu.Unlock()
}

// StartProducer streams parts from a new goroutine.
func StartProducer[T any](p *Producers, node string, parts []T) *schema.StreamReader[T] {
	sr, sw := schema.Pipe[T](p.Cap)
	st := p.add(node, len(parts))
	go producerLoop(p, st, sw, func() ([]T, error) { return parts, nil })
	return sr
}

// StartLazyProducer streams what parts() returns; parts runs inside the producer goroutine.
func StartLazyProducer[T any](p *Producers, node string, parts func() ([]T, error)) *schema.StreamReader[T] {
	sr, sw := schema.Pipe[T](p.Cap)
	st := p.add(node, -1)
	go producerLoop(p, st, sw, parts)
	return sr
}
