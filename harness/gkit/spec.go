// Package gkit: graph specifications as plain data, builders that turn a spec into an
// eino Graph / Workflow / Chain through the public API, instrumented node bodies, and
// reference models written from the property statements (they share no code with eino).
// Overlaid into the eino module at internal/gkit by /verif/run_check.py.
package gkit

import (
	"fmt"
	"hash/fnv"
	"sort"
	"strings"
)

// Value types flowing through generated graphs: "S" = string, "M" = map[string]any
// (string leaves, possibly nested maps), "A" = any (only as parameter type of lambdas that
// sit behind an input key).

// NodeSpec describes one node.
type NodeSpec struct {
	Key       string `json:"key"`
	Kind      string `json:"kind"`           // lambda | pass | graph
	In        string `json:"in,omitempty"`   // lambda parameter type S | M | A; for pass: the type that flows
	InputKey  string `json:"ik,omitempty"`   // WithInputKey
	OutputKey string `json:"ok,omitempty"`   // WithOutputKey
	Digest    bool   `json:"dg,omitempty"`   // body hashes long inputs (keeps values short in cycles)
	Para      string `json:"para,omitempty"` // native paradigms, subset of "ISCT" ("" = "I")
	Chunks    int    `json:"ch,omitempty"`   // number of chunks a natively streaming body emits (0 = 1)
	Sub       *Spec  `json:"sub,omitempty"`  // graph node
	// ViaLambda (graph nodes of graphs and workflows): the nested graph is compiled on its own and run from inside
	// a lambda node with the node's context; the lambda wraps the error it hands back (%w)
	ViaLambda bool   `json:"vialambda,omitempty"`
	Static    string `json:"static,omitempty"` // workflow node with map input: SetStaticValue(FieldPath{Static}, "static")

	Gate  bool   `json:"gate,omitempty"`  // body waits for the completion controller
	Fault string `json:"fault,omitempty"` // "", err, panic, streamerr (error item after some chunks)
	// FaultEOF: the error of an injected failure additionally wraps io.EOF
	FaultEOF bool   `json:"feof,omitempty"`
	Rerun    int    `json:"rerun,omitempty"` // body returns InterruptAndRerun on its first Rerun attempts
	PreH     string `json:"preh,omitempty"`  // state pre-handler: "", v, s
	PostH    string `json:"posth,omitempty"` // state post-handler: "", v, s
	PS       bool   `json:"ps,omitempty"`    // body calls ProcessState
	Alt      bool   `json:"-"`               // model only: perturb the node function (influence analysis)
}

// Edge is a connection. In graph modes it is a plain AddEdge. In workflow mode:
// NoControl = data only (WithNoDirectDependency), NoData = control only (AddDependency),
// ToKey = the whole output of From is mapped to key ToKey of the (map typed) input of To.
type Edge struct {
	From      string `json:"f"`
	To        string `json:"t"`
	NoControl bool   `json:"nc,omitempty"`
	NoData    bool   `json:"nd,omitempty"`
	ToKey     string `json:"tk,omitempty"`
	// FromKey (workflow only): the value under this key of From's map output is what is mapped (to ToKey, or to
	// the whole input of To when ToKey is empty).  Generated only for keys that every value of From carries.
	FromKey string `json:"fk,omitempty"`
}

// Branch is a conditional connection from From to a subset of Targets, decided by a
// deterministic function of the value and Salt.
type Branch struct {
	From    string   `json:"f"`
	Targets []string `json:"ts"`
	Multi   bool     `json:"multi,omitempty"`
	Stream  bool     `json:"stream,omitempty"` // condition reads the stream form
	Salt    int      `json:"salt,omitempty"`
	// Force, when non-nil, replaces the hash decision (used to enumerate outcome vectors);
	// an entry "-" stands for the empty selection.
	Force []string `json:"force,omitempty"`
	// Prefix (stream conditions with Force only): the condition reads one chunk, closes its
	// stream and returns the forced decision.
	Prefix bool `json:"prefix,omitempty"`
}

// Spec is a whole graph.
type Spec struct {
	Mode     string     `json:"mode"` // pregel | dag | workflow | chain
	In       string     `json:"in"`   // S | M
	Out      string     `json:"out"`  // S | M
	Nodes    []NodeSpec `json:"nodes"`
	Edges    []Edge     `json:"edges,omitempty"`
	Branches []Branch   `json:"branches,omitempty"`
	MaxSteps int        `json:"maxsteps,omitempty"` // compile-time limit (0 = default)

	State     bool     `json:"state,omitempty"`
	IntBefore []string `json:"ib,omitempty"`
	IntAfter  []string `json:"ia,omitempty"`

	// chain mode: the stages in order (Nodes/Edges/Branches unused)
	Stages []Stage `json:"stages,omitempty"`
}

// Stage is one Append* call of a chain.
type Stage struct {
	Kind  string     `json:"kind"` // node | parallel | branch
	Nodes []NodeSpec `json:"nodes"`
	Multi bool       `json:"multi,omitempty"`
	Salt  int        `json:"salt,omitempty"`
}

const (
	Start = "start"
	End   = "end"
)

// Node returns the node with the given key.
func (sp *Spec) Node(key string) *NodeSpec {
	for i := range sp.Nodes {
		if sp.Nodes[i].Key == key {
			return &sp.Nodes[i]
		}
	}
	return nil
}

// EffIn is the type the node accepts as seen by its predecessors.
func (n *NodeSpec) EffIn() string {
	if n.InputKey != "" {
		return "M"
	}
	switch n.Kind {
	case "graph":
		return n.Sub.In
	}
	return n.In
}

// EffOut is the type the node produces as seen by its successors.
func (n *NodeSpec) EffOut() string {
	if n.OutputKey != "" {
		return "M"
	}
	switch n.Kind {
	case "graph":
		return n.Sub.Out
	case "pass":
		return n.In
	}
	return "S"
}

// OutType of a key (node, or START).
func (sp *Spec) OutType(key string) string {
	if key == Start {
		return sp.In
	}
	return sp.Node(key).EffOut()
}

// InType of a key (node, or END).
func (sp *Spec) InType(key string) string {
	if key == End {
		return sp.Out
	}
	return sp.Node(key).EffIn()
}

// ---- values -------------------------------------------------------------------

// Canon renders a value (string / map[string]any / nil) canonically.
func Canon(v any) string {
	switch x := v.(type) {
	case nil:
		return "<nil>"
	case string:
		return x
	case map[string]any:
		keys := make([]string, 0, len(x))
		for k := range x {
			keys = append(keys, k)
		}
		sort.Strings(keys)
		var sb strings.Builder
		sb.WriteByte('{')
		for i, k := range keys {
			if i > 0 {
				sb.WriteByte(',')
			}
			sb.WriteString(k)
			sb.WriteByte(':')
			sb.WriteString(Canon(x[k]))
		}
		sb.WriteByte('}')
		return sb.String()
	default:
		return fmt.Sprintf("<%T:%v>", v, v)
	}
}

func hash32(s string, salt int) uint32 {
	h := fnv.New32a()
	h.Write([]byte(s))
	h.Write([]byte{byte(salt), byte(salt >> 8), 0x5a})
	return h.Sum32()
}

// F is the deterministic node function on canonical inputs.
func F(tag string, digest bool, in string) string {
	if digest && len(in) > 20 {
		return fmt.Sprintf("%s#%08x", tag, hash32(in, 0))
	}
	return tag + "(" + in + ")"
}

// Select evaluates a branch condition on the canonical value.
func (b *Branch) Select(canon string) []string {
	if b.Force != nil {
		var out []string
		for _, f := range b.Force {
			if f != "-" {
				out = append(out, f)
			}
		}
		return out
	}
	h := hash32(canon, b.Salt)
	if !b.Multi {
		return []string{b.Targets[int(h%uint32(len(b.Targets)))]}
	}
	var out []string
	mask := h % (1 << uint(len(b.Targets)))
	for i, t := range b.Targets {
		if mask&(1<<uint(i)) != 0 {
			out = append(out, t)
		}
	}
	return out
}

// ZeroOf returns the zero value of a type letter.
func ZeroOf(t string) any {
	if t == "M" {
		return map[string]any(nil)
	}
	if t == "A" {
		return nil
	}
	return ""
}

// MergeMaps merges map values; duplicate keys are a failure.
func MergeMaps(vs []any) (any, error) {
	out := map[string]any{}
	for _, v := range vs {
		m, ok := v.(map[string]any)
		if !ok {
			return nil, fmt.Errorf("merge of non-map")
		}
		for k, x := range m {
			if _, dup := out[k]; dup {
				return nil, fmt.Errorf("duplicated key %s", k)
			}
			out[k] = x
		}
	}
	return out, nil
}

// Exec is one node execution as recorded by a body or predicted by a model.
type Exec struct {
	Node string `json:"node"` // path, e.g. "n2/n0"
	In   string `json:"in"`   // canonical input
}

// SortExecs sorts a copy.
func SortExecs(es []Exec) []Exec {
	c := append([]Exec(nil), es...)
	sort.Slice(c, func(i, j int) bool {
		if c[i].Node != c[j].Node {
			return c[i].Node < c[j].Node
		}
		return c[i].In < c[j].In
	})
	return c
}

// DiffExecs compares two execution logs as multisets; "" when equal.  Executions listed
// in optional (a sub-multiset of want) may be absent from got.
func DiffExecs(got, want []Exec, optional ...Exec) string {
	g, w := SortExecs(got), SortExecs(want)
	cnt := map[Exec]int{}
	for _, e := range w {
		cnt[e]++
	}
	for _, e := range g {
		cnt[e]--
	}
	opt := map[Exec]int{}
	for _, e := range optional {
		opt[e]++
	}
	var extra, missing []string
	for e, c := range cnt {
		if c < 0 {
			extra = append(extra, fmt.Sprintf("%s<-%q x%d", e.Node, short(e.In), -c))
		} else if c > opt[e] {
			missing = append(missing, fmt.Sprintf("%s<-%q x%d", e.Node, short(e.In), c-opt[e]))
		}
	}
	if len(extra)+len(missing) == 0 {
		return ""
	}
	sort.Strings(extra)
	sort.Strings(missing)
	return fmt.Sprintf("executions not predicted by the model: %v; predicted but missing: %v", extra, missing)
}

// DiffExecSeq compares per-node ordered sequences; "" when equal.
func DiffExecSeq(got, want []Exec) string {
	gs, ws := map[string][]string{}, map[string][]string{}
	for _, e := range got {
		gs[e.Node] = append(gs[e.Node], e.In)
	}
	for _, e := range want {
		ws[e.Node] = append(ws[e.Node], e.In)
	}
	keys := map[string]bool{}
	for k := range gs {
		keys[k] = true
	}
	for k := range ws {
		keys[k] = true
	}
	var ks []string
	for k := range keys {
		ks = append(ks, k)
	}
	sort.Strings(ks)
	for _, k := range ks {
		if strings.Join(gs[k], "\x00") != strings.Join(ws[k], "\x00") {
			return fmt.Sprintf("node %s executed on inputs %q, model says %q", k, shorts(gs[k]), shorts(ws[k]))
		}
	}
	return ""
}

func short(s string) string {
	if len(s) > 60 {
		return s[:60] + "…"
	}
	return s
}

func shorts(ss []string) []string {
	o := make([]string, len(ss))
	for i, s := range ss {
		o[i] = short(s)
	}
	return o
}
