package gkit

import (
	"context"
	"errors"
	"fmt"
	"io"
	"sort"
	"strings"
	"sync"

	"github.com/cloudwego/eino/compose"
	"github.com/cloudwego/eino/schema"
)

// ---- per-call environment -----------------------------------------------------

type envKey struct{}

// CallEnv carries what instrumented bodies need for one call: the execution log, the
// completion controller, fault data.  It travels in the context, so concurrent calls on
// one compiled runnable are isolated by construction of the harness.
type CallEnv struct {
	mu       sync.Mutex
	Log      []Exec
	Tag      string // call id, for isolation checks
	Ctl      *Controller
	Attempts map[string]int // per node path: executions started (for Rerun)
	// MaxRunsPerNode > 0: a body that is started more often than this aborts the run with
	// ErrRunaway (turns non-termination into a counted failure).
	MaxRunsPerNode int
	Runaway        bool
	FaultErr       error // the error injected by Fault == "err"
	StatesMade     int   // number of state objects generated during this call
	Mon            *StateMonitor
	Call           int                  // index of the current call of a history (set by the driver)
	Events         []Event              // start / end of bodies, in real order
	SeenStates     map[string]*GState   // graph path -> state object last seen by a callback of that graph
	SeenSeq        map[string]int       // graph path -> logical time of that observation
	SeenAll        map[string][]*GState // graph path -> every distinct state object observed there
	SeenCall       map[*GState]int      // state object -> 1 + index of the call (WithCall) whose bodies touched it; 0 = unknown
	StateMu        sync.Mutex           // serialises harness-side accesses to state objects
	seenSeq        int
	Hook           func(ctx context.Context, n *NodeSpec, tag string, in string) // optional extra instrumentation
	Cancel         context.CancelFunc                                            // called by a body with Fault == cancel
	Prod           *Producers                                                    // non-nil: streams come from real producer goroutines (C19)
}

// Event is the start or the end of one body execution.
type Event struct {
	Call    int    `json:"call"`
	Node    string `json:"node"`
	Phase   string `json:"phase"` // start | end | abort (asked for interrupt-and-rerun)
	In      string `json:"in,omitempty"`
	Out     string `json:"out,omitempty"`
	Aborted bool   `json:"aborted,omitempty"`
}

func (e *CallEnv) event(ev Event) {
	e.mu.Lock()
	ev.Call = e.Call
	e.Events = append(e.Events, ev)
	e.mu.Unlock()
}

// SetCall sets the call index for subsequent events.
func (e *CallEnv) SetCall(i int) {
	e.mu.Lock()
	e.Call = i
	e.mu.Unlock()
}

// EventsCopy returns a copy of the event list.
func (e *CallEnv) EventsCopy() []Event {
	e.mu.Lock()
	defer e.mu.Unlock()
	return append([]Event(nil), e.Events...)
}

// ErrRunaway is returned by a body that was started implausibly often.
var ErrRunaway = errors.New("gkit: node executed more often than the step limit allows")

// NewEnv returns a fresh environment.
func NewEnv(tag string) *CallEnv {
	return &CallEnv{Tag: tag, Attempts: map[string]int{}}
}

// With attaches the environment to a context.
func (e *CallEnv) With(ctx context.Context) context.Context {
	return context.WithValue(ctx, envKey{}, e)
}

type callKey struct{}

// WithCall marks a context with the index of the call of a history it belongs to.
func WithCall(ctx context.Context, idx int) context.Context {
	return context.WithValue(ctx, callKey{}, idx+1)
}

func callOf(ctx context.Context) int {
	i, _ := ctx.Value(callKey{}).(int)
	return i
}

// EnvOf extracts the environment.
func EnvOf(ctx context.Context) *CallEnv {
	e, _ := ctx.Value(envKey{}).(*CallEnv)
	return e
}

// Execs returns a copy of the log.
func (e *CallEnv) Execs() []Exec {
	e.mu.Lock()
	defer e.mu.Unlock()
	return append([]Exec(nil), e.Log...)
}

func (e *CallEnv) record(tag, in string) int {
	e.mu.Lock()
	defer e.mu.Unlock()
	e.Log = append(e.Log, Exec{Node: tag, In: in})
	e.Attempts[tag]++
	e.Events = append(e.Events, Event{Call: e.Call, Node: tag, Phase: "start", In: in})
	return e.Attempts[tag]
}

// unrecord removes the log entry of an aborted attempt (a node that asked for interrupt-and-rerun).
func (e *CallEnv) unrecord(tag, in string) {
	e.mu.Lock()
	defer e.mu.Unlock()
	for i := len(e.Log) - 1; i >= 0; i-- {
		if e.Log[i].Node == tag && e.Log[i].In == in {
			e.Log = append(e.Log[:i], e.Log[i+1:]...)
			break
		}
	}
	e.Events = append(e.Events, Event{Call: e.Call, Node: tag, Phase: "abort", In: in})
}

// ---- the body shared by all paradigms -----------------------------------------

// InjectedError is the custom error type used by fault plans.
type InjectedError struct {
	Node string
	EOF  bool // the chain of this failure also ends in io.EOF (e.g. "connection closed: EOF"): still a failure
}

func (e *InjectedError) Error() string { return "injected failure in " + e.Node }

// ErrSentinel is wrapped by every injected error.
var ErrSentinel = errors.New("gkit sentinel")

// Unwrap lets errors.Is find the sentinel (and io.EOF for the failures that carry it).
func (e *InjectedError) Unwrap() []error {
	if e.EOF {
		return []error{ErrSentinel, io.EOF}
	}
	return []error{ErrSentinel}
}

func body(ctx context.Context, n *NodeSpec, tag string, in string) (string, error) {
	env := EnvOf(ctx)
	if env == nil {
		return F(tag, n.Digest, in), nil
	}
	attempt := env.record(tag, in)
	if env.MaxRunsPerNode > 0 && attempt > env.MaxRunsPerNode {
		env.mu.Lock()
		env.Runaway = true
		env.mu.Unlock()
		return "", ErrRunaway
	}
	if env.Hook != nil {
		env.Hook(ctx, n, tag, in)
	}
	if n.Gate && env.Ctl != nil {
		env.Ctl.Wait(tag)
	}
	if n.Rerun > 0 && attempt <= n.Rerun {
		env.unrecord(tag, in)
		return "", compose.InterruptAndRerun
	}
	if n.PS {
		if err := compose.ProcessState[*GState](ctx, func(ctx context.Context, st *GState) error {
			critical(ctx, st, "ps:"+tag)
			if n.Fault == "pspanic" {
				// the state handler itself panics: the node fails, the state stays usable for everybody else
				panic("injected panic in the state handler of " + tag)
			}
			return nil
		}); err != nil {
			return "", err
		}
	}
	switch n.Fault {
	case "err":
		return "", fmt.Errorf("wrapped: %w", &InjectedError{Node: tag, EOF: n.FaultEOF})
	case "cancelerr":
		// the failing body also cancels the run's context: the node's failure is still what the run reports
		if env.Cancel != nil {
			env.Cancel()
		}
		return "", fmt.Errorf("wrapped: %w", &InjectedError{Node: tag, EOF: n.FaultEOF})
	case "panic", "pspanic":
		panic("injected panic in " + tag)
	case "preherr":
		// a node without pre-handler cannot fail there: it fails in its body instead
		return "", fmt.Errorf("wrapped: %w", &InjectedError{Node: tag, EOF: n.FaultEOF})
	case "cancel":
		if env.Cancel != nil {
			env.Cancel()
		}
	}
	out := F(tag, n.Digest, in)
	env.event(Event{Node: tag, Phase: "end", In: in, Out: out})
	return out, nil
}

// Chunk splits s into k pieces (some possibly empty), deterministically.
func Chunk(s string, k int) []string { return chunk(s, k) }

func chunk(s string, k int) []string {
	if k <= 1 {
		return []string{s}
	}
	out := make([]string, 0, k+2) // room to spare, as a slice built by append usually has
	n := len(s)
	prev := 0
	for i := 1; i <= k; i++ {
		cut := n * i / k
		if i == k {
			cut = n
		}
		// make some chunks empty; which one depends on the content
		if (i+n)%3 == 2 && i != k {
			cut = prev
		}
		out = append(out, s[prev:cut])
		prev = cut
	}
	return out
}

// ConcatAny concatenates chunks of string / map[string]any the way the statement of C04
// defines it: strings join in order; maps concatenate key-wise, recursively.
func ConcatAny(chunks []any) (any, error) {
	if len(chunks) == 0 {
		return nil, errors.New("gkit: empty input stream")
	}
	if len(chunks) == 1 {
		return chunks[0], nil
	}
	switch chunks[0].(type) {
	case string:
		var sb strings.Builder
		for _, c := range chunks {
			s, ok := c.(string)
			if !ok {
				return nil, fmt.Errorf("mixed chunk types")
			}
			sb.WriteString(s)
		}
		return sb.String(), nil
	case map[string]any:
		per := map[string][]any{}
		var order []string
		for _, c := range chunks {
			m, ok := c.(map[string]any)
			if !ok {
				return nil, fmt.Errorf("mixed chunk types")
			}
			ks := make([]string, 0, len(m))
			for k := range m {
				ks = append(ks, k)
			}
			sort.Strings(ks)
			for _, k := range ks {
				if _, seen := per[k]; !seen {
					order = append(order, k)
				}
				per[k] = append(per[k], m[k])
			}
		}
		out := map[string]any{}
		for _, k := range order {
			v, err := ConcatAny(per[k])
			if err != nil {
				return nil, err
			}
			out[k] = v
		}
		return out, nil
	}
	return nil, fmt.Errorf("unsupported chunk type %T", chunks[0])
}

func drain[I any](sr *schema.StreamReader[I]) ([]any, error) {
	defer sr.Close()
	var out []any
	for {
		c, err := sr.Recv()
		if err == io.EOF {
			return out, nil
		}
		if err != nil {
			return out, err
		}
		out = append(out, c)
	}
}

func streamOf(parts []string, failAfter int, failErr error) *schema.StreamReader[string] {
	if failAfter < 0 {
		return schema.StreamReaderFromArray(parts)
	}
	sr, sw := schema.Pipe[string](len(parts) + 1)
	for i, p := range parts {
		if i == failAfter {
			break
		}
		sw.Send(p, nil)
	}
	sw.Send("", failErr)
	sw.Close()
	return sr
}

// mkLambda builds the lambda of one node for parameter type I.
func mkLambda[I any](n *NodeSpec, tag string) *compose.Lambda {
	para := n.Para
	if para == "" {
		para = "I"
	}
	chunks := n.Chunks
	if chunks < 1 {
		chunks = 1
	}
	nodeBody := func(ctx context.Context, in string) (string, error) {
		if n.Fault == "streamerr" || n.Fault == "streampanic" {
			// recorded like a normal execution; the failure is delivered on the stream
			nn := *n
			nn.Fault = ""
			return body(ctx, &nn, tag, in)
		}
		return body(ctx, n, tag, in)
	}
	outStream := func(ctx context.Context, s string) *schema.StreamReader[string] {
		parts := chunk(s, chunks)
		if n.Fault == "streampanic" {
			cnt := 0
			return schema.StreamReaderWithConvert(schema.StreamReaderFromArray(append(parts, "")), func(x string) (string, error) {
				cnt++
				if cnt == len(parts)+1 {
					panic("injected panic in stream of " + tag)
				}
				return x, nil
			})
		}
		if n.Fault == "streamerr" {
			return streamOf(parts, len(parts)/2, fmt.Errorf("wrapped: %w", &InjectedError{Node: tag, EOF: n.FaultEOF}))
		}
		if env := EnvOf(ctx); env != nil && env.Prod != nil {
			return StartProducer(env.Prod, tag, parts)
		}
		return streamOf(parts, -1, nil)
	}
	inv := func(ctx context.Context, in I, _ ...any) (string, error) {
		if n.Fault == "streampanic" {
			if _, err := nodeBody(ctx, Canon(any(in))); err != nil {
				return "", err
			}
			panic("injected panic in stream of " + tag)
		}
		if n.Fault == "streamerr" {
			if _, err := nodeBody(ctx, Canon(any(in))); err != nil {
				return "", err
			}
			return "", fmt.Errorf("wrapped: %w", &InjectedError{Node: tag, EOF: n.FaultEOF})
		}
		return nodeBody(ctx, Canon(any(in)))
	}
	str := func(ctx context.Context, in I, _ ...any) (*schema.StreamReader[string], error) {
		s, err := nodeBody(ctx, Canon(any(in)))
		if err != nil {
			return nil, err
		}
		return outStream(ctx, s), nil
	}
	col := func(ctx context.Context, in *schema.StreamReader[I], _ ...any) (string, error) {
		cs, err := drain(in)
		if err != nil {
			return "", err
		}
		v, err := ConcatAny(cs)
		if err != nil {
			return "", err
		}
		if n.Fault == "streampanic" {
			if _, err := nodeBody(ctx, Canon(v)); err != nil {
				return "", err
			}
			panic("injected panic in stream of " + tag)
		}
		if n.Fault == "streamerr" {
			if _, err := nodeBody(ctx, Canon(v)); err != nil {
				return "", err
			}
			return "", fmt.Errorf("wrapped: %w", &InjectedError{Node: tag, EOF: n.FaultEOF})
		}
		return nodeBody(ctx, Canon(v))
	}
	tra := func(ctx context.Context, in *schema.StreamReader[I], _ ...any) (*schema.StreamReader[string], error) {
		if env := EnvOf(ctx); env != nil && env.Prod != nil && env.Prod.Lazy && n.Fault == "" {
			// a lazy transformer: the input is read by the producer goroutine of the output
			return StartLazyProducer(env.Prod, tag, func() ([]string, error) {
				cs, err := drain(in)
				if err != nil {
					return nil, err
				}
				v, err := ConcatAny(cs)
				if err != nil {
					return nil, err
				}
				s, err := nodeBody(ctx, Canon(v))
				if err != nil {
					return nil, err
				}
				return chunk(s, chunks), nil
			}), nil
		}
		cs, err := drain(in)
		if err != nil {
			return nil, err
		}
		v, err := ConcatAny(cs)
		if err != nil {
			return nil, err
		}
		s, err := nodeBody(ctx, Canon(v))
		if err != nil {
			return nil, err
		}
		return outStream(ctx, s), nil
	}
	var i compose.Invoke[I, string, any]
	var s compose.Stream[I, string, any]
	var c compose.Collect[I, string, any]
	var t compose.Transform[I, string, any]
	if strings.Contains(para, "I") {
		i = inv
	}
	if strings.Contains(para, "S") {
		s = str
	}
	if strings.Contains(para, "C") {
		c = col
	}
	if strings.Contains(para, "T") {
		t = tra
	}
	l, err := compose.AnyLambda(i, s, c, t)
	if err != nil {
		panic(err)
	}
	return l
}

func lambdaFor(n *NodeSpec, tag string) *compose.Lambda {
	switch n.In {
	case "S":
		return mkLambda[string](n, tag)
	case "M":
		return mkLambda[map[string]any](n, tag)
	case "A":
		return mkLambda[any](n, tag)
	}
	panic("bad lambda input type " + n.In)
}

// ---- builders -------------------------------------------------------------------

// BuildOpts are knobs used by individual properties.
type BuildOpts struct {
	Store     compose.CheckPointStore
	NodeOpts  func(sp *Spec, n *NodeSpec, path string) []compose.GraphAddNodeOpt // extra node options (state handlers)
	NewOpts   func(sp *Spec, path string) []compose.NewGraphOption               // e.g. WithGenLocalState
	AddOrder  []int                                                              // permutation hint for the order of Add* calls (nil = canonical)
	ExtraComp []compose.GraphCompileOption                                       // top level only
	// ShareBranches: branches of one graph with the same definition (targets, kind, salt, value type) are ONE
	// *compose.GraphBranch value added to each of their nodes, as a caller who keeps a branch in a variable would do
	ShareBranches bool
	PreCompile    []compose.GraphCompileOption                         // when non-nil: the graph object is first compiled with these options (result dropped), then as specified
	BranchHook    func(sp *Spec, b *Branch, path string, canon string) // observes branch evaluations
}

func nodeOpts(sp *Spec, n *NodeSpec, path string, bo *BuildOpts, skipOutputKey ...bool) []compose.GraphAddNodeOpt {
	var opts []compose.GraphAddNodeOpt
	opts = append(opts, compose.WithNodeName(path+n.Key)) // run info of callbacks carries the node path
	if n.InputKey != "" {
		opts = append(opts, compose.WithInputKey(n.InputKey))
	}
	if n.OutputKey != "" && len(skipOutputKey) == 0 {
		opts = append(opts, compose.WithOutputKey(n.OutputKey))
	}
	if n.Kind == "graph" && !n.ViaLambda {
		opts = append(opts, compose.WithGraphCompileOptions(compileOpts(n.Sub, nil, false)...))
	}
	if n.Kind != "pass" {
		opts = append(opts, handlerOptsFor(n, path+n.Key)...)
	}
	if bo != nil && bo.NodeOpts != nil {
		opts = append(opts, bo.NodeOpts(sp, n, path)...)
	}
	return opts
}

func compileOpts(sp *Spec, bo *BuildOpts, top bool) []compose.GraphCompileOption {
	var opts []compose.GraphCompileOption
	if sp.Mode == "dag" {
		opts = append(opts, compose.WithNodeTriggerMode(compose.AllPredecessor))
	}
	if sp.MaxSteps > 0 {
		opts = append(opts, compose.WithMaxRunSteps(sp.MaxSteps))
	}
	if len(sp.IntBefore) > 0 {
		opts = append(opts, compose.WithInterruptBeforeNodes(sp.IntBefore))
	}
	if len(sp.IntAfter) > 0 {
		opts = append(opts, compose.WithInterruptAfterNodes(sp.IntAfter))
	}
	if top && bo != nil {
		if bo.Store != nil {
			opts = append(opts, compose.WithCheckPointStore(bo.Store))
		}
		opts = append(opts, bo.ExtraComp...)
	}
	return opts
}

func newOpts(sp *Spec, path string, bo *BuildOpts) []compose.NewGraphOption {
	var opts []compose.NewGraphOption
	if sp.State {
		opts = append(opts, compose.WithGenLocalState(newGState))
	}
	if bo != nil && bo.NewOpts != nil {
		opts = append(opts, bo.NewOpts(sp, path)...)
	}
	return opts
}

func branchFor(sp *Spec, b *Branch, path string, bo *BuildOpts) *compose.GraphBranch {
	switch sp.OutType(b.From) {
	case "S":
		return mkBranch[string](sp, b, path, bo)
	default:
		return mkBranch[map[string]any](sp, b, path, bo)
	}
}

func mkBranch[T any](sp *Spec, b *Branch, path string, bo *BuildOpts) *compose.GraphBranch {
	ends := map[string]bool{}
	for _, t := range b.Targets {
		ends[t] = true
	}
	decide := func(c string) map[string]bool {
		if bo != nil && bo.BranchHook != nil {
			bo.BranchHook(sp, b, path, c)
		}
		out := map[string]bool{}
		for _, t := range b.Select(c) {
			out[t] = true
		}
		return out
	}
	if b.Stream {
		cond := func(ctx context.Context, in *schema.StreamReader[T]) (map[string]bool, error) {
			if b.Prefix && b.Force != nil {
				_, err := in.Recv()
				in.Close()
				if err != nil && err != io.EOF {
					return nil, err
				}
				return decide(""), nil
			}
			cs, err := drain(in)
			if err != nil {
				return nil, err
			}
			v, err := ConcatAny(cs)
			if err != nil {
				return nil, err
			}
			return decide(Canon(v)), nil
		}
		if !b.Multi {
			return compose.NewStreamGraphBranch(func(ctx context.Context, in *schema.StreamReader[T]) (string, error) {
				m, err := cond(ctx, in)
				for k := range m {
					return k, err
				}
				return "", err
			}, ends)
		}
		return compose.NewStreamGraphMultiBranch(cond, ends)
	}
	if !b.Multi {
		return compose.NewGraphBranch(func(ctx context.Context, in T) (string, error) {
			for k := range decide(Canon(any(in))) {
				return k, nil
			}
			return "", nil
		}, ends)
	}
	return compose.NewGraphMultiBranch(func(ctx context.Context, in T) (map[string]bool, error) {
		return decide(Canon(any(in))), nil
	}, ends)
}

type nodeAdder interface {
	AddLambdaNode(key string, node *compose.Lambda, opts ...compose.GraphAddNodeOpt) error
	AddPassthroughNode(key string, opts ...compose.GraphAddNodeOpt) error
	AddGraphNode(key string, node compose.AnyGraph, opts ...compose.GraphAddNodeOpt) error
}

func addNode(g nodeAdder, sp *Spec, n *NodeSpec, path string, bo *BuildOpts) error {
	opts := nodeOpts(sp, n, path, bo)
	switch n.Kind {
	case "lambda":
		return g.AddLambdaNode(n.Key, lambdaFor(n, path+n.Key), opts...)
	case "pass":
		return g.AddPassthroughNode(n.Key, opts...)
	case "graph":
		if n.ViaLambda {
			l, err := graphLambda(n, path, bo)
			if err != nil {
				return err
			}
			return g.AddLambdaNode(n.Key, l, opts...)
		}
		sub, err := BuildAny(n.Sub, path+n.Key+"/", bo)
		if err != nil {
			return err
		}
		return g.AddGraphNode(n.Key, sub, opts...)
	}
	return fmt.Errorf("unknown node kind %q", n.Kind)
}

func buildGraph[I, O any](sp *Spec, path string, bo *BuildOpts) (*compose.Graph[I, O], error) {
	g := compose.NewGraph[I, O](newOpts(sp, path, bo)...)
	for i := range sp.Nodes {
		if err := addNode(g, sp, &sp.Nodes[i], path, bo); err != nil {
			return nil, fmt.Errorf("add node %s: %w", sp.Nodes[i].Key, err)
		}
	}
	for _, e := range sp.Edges {
		if err := g.AddEdge(e.From, e.To); err != nil {
			return nil, fmt.Errorf("add edge %s->%s: %w", e.From, e.To, err)
		}
	}
	shared := map[string]*compose.GraphBranch{}
	for i := range sp.Branches {
		b := &sp.Branches[i]
		br := branchFor(sp, b, path, bo)
		if bo != nil && bo.ShareBranches && (bo.BranchHook == nil) {
			sig := fmt.Sprintf("%v|%v|%v|%d|%v|%v|%s", b.Targets, b.Multi, b.Stream, b.Salt, b.Force, b.Prefix, sp.OutType(b.From))
			if prev, ok := shared[sig]; ok {
				br = prev
			} else {
				shared[sig] = br
			}
		}
		if err := g.AddBranch(b.From, br); err != nil {
			return nil, fmt.Errorf("add branch from %s: %w", b.From, err)
		}
	}
	return g, nil
}

type wfAdder[I, O any] struct{ wf *compose.Workflow[I, O] }

func buildWorkflow[I, O any](sp *Spec, path string, bo *BuildOpts) (*compose.Workflow[I, O], error) {
	wf := compose.NewWorkflow[I, O](newOpts(sp, path, bo)...)
	nodes := map[string]*compose.WorkflowNode{}
	for i := range sp.Nodes {
		n := &sp.Nodes[i]
		opts := nodeOpts(sp, n, path, bo)
		switch n.Kind {
		case "lambda":
			nodes[n.Key] = wf.AddLambdaNode(n.Key, lambdaFor(n, path+n.Key), opts...)
		case "pass":
			nodes[n.Key] = wf.AddPassthroughNode(n.Key, opts...)
		case "graph":
			if n.ViaLambda {
				l, err := graphLambda(n, path, bo)
				if err != nil {
					return nil, err
				}
				nodes[n.Key] = wf.AddLambdaNode(n.Key, l, opts...)
				continue
			}
			sub, err := BuildAny(n.Sub, path+n.Key+"/", bo)
			if err != nil {
				return nil, err
			}
			nodes[n.Key] = wf.AddGraphNode(n.Key, sub, opts...)
		}
	}
	for i := range sp.Nodes {
		if n := &sp.Nodes[i]; n.Static != "" {
			nodes[n.Key].SetStaticValue(compose.FieldPath{n.Static}, "static")
		}
	}
	nodes[End] = wf.End()
	for _, e := range sp.Edges {
		to := nodes[e.To]
		if to == nil {
			return nil, fmt.Errorf("workflow edge to unknown node %s", e.To)
		}
		var maps []*compose.FieldMapping
		switch {
		case e.FromKey != "" && e.ToKey != "":
			maps = append(maps, compose.MapFields(e.FromKey, e.ToKey))
		case e.FromKey != "":
			maps = append(maps, compose.FromField(e.FromKey))
		case e.ToKey != "":
			maps = append(maps, compose.ToField(e.ToKey))
		}
		switch {
		case e.NoData:
			to.AddDependency(e.From)
		case e.NoControl:
			to.AddInputWithOptions(e.From, maps, compose.WithNoDirectDependency())
		default:
			to.AddInput(e.From, maps...)
		}
	}
	for i := range sp.Branches {
		wf.AddBranch(sp.Branches[i].From, branchFor(sp, &sp.Branches[i], path, bo))
	}
	return wf, nil
}

func chainNodeOpts(sp *Spec, n *NodeSpec, path string, bo *BuildOpts) []compose.GraphAddNodeOpt {
	return nodeOpts(sp, n, path, bo)
}

func buildChain[I, O any](sp *Spec, path string, bo *BuildOpts) (*compose.Chain[I, O], error) {
	ch := compose.NewChain[I, O](newOpts(sp, path, bo)...)
	prevOut := sp.In
	for si := range sp.Stages {
		st := &sp.Stages[si]
		switch st.Kind {
		case "node":
			n := &st.Nodes[0]
			opts := chainNodeOpts(sp, n, path, bo)
			switch n.Kind {
			case "lambda":
				ch.AppendLambda(lambdaFor(n, path+n.Key), opts...)
			case "pass":
				ch.AppendPassthrough(opts...)
			case "graph":
				sub, err := BuildAny(n.Sub, path+n.Key+"/", bo)
				if err != nil {
					return nil, err
				}
				ch.AppendGraph(sub, opts...)
			}
			prevOut = n.EffOut()
		case "parallel":
			p := compose.NewParallel()
			for i := range st.Nodes {
				n := &st.Nodes[i]
				// the parallel's output key is the node's OutputKey; do not pass WithOutputKey twice
				opts := nodeOpts(sp, n, path, bo, true)
				switch n.Kind {
				case "lambda":
					p.AddLambda(n.OutputKey, lambdaFor(n, path+n.Key), opts...)
				case "pass":
					p.AddPassthrough(n.OutputKey, opts...)
				case "graph":
					sub, err := BuildAny(n.Sub, path+n.Key+"/", bo)
					if err != nil {
						return nil, err
					}
					p.AddGraph(n.OutputKey, sub, opts...)
				}
			}
			ch.AppendParallel(p)
			prevOut = "M"
		case "branch":
			b := &Branch{Multi: st.Multi, Salt: st.Salt}
			for i := range st.Nodes {
				b.Targets = append(b.Targets, st.Nodes[i].Key)
			}
			var cb *compose.ChainBranch
			if prevOut == "S" {
				cb = chainBranch[string](b)
			} else {
				cb = chainBranch[map[string]any](b)
			}
			for i := range st.Nodes {
				n := &st.Nodes[i]
				opts := chainNodeOpts(sp, n, path, bo)
				switch n.Kind {
				case "lambda":
					cb.AddLambda(n.Key, lambdaFor(n, path+n.Key), opts...)
				case "pass":
					cb.AddPassthrough(n.Key, opts...)
				case "graph":
					sub, err := BuildAny(n.Sub, path+n.Key+"/", bo)
					if err != nil {
						return nil, err
					}
					cb.AddGraph(n.Key, sub, opts...)
				}
			}
			ch.AppendBranch(cb)
			prevOut = st.Nodes[0].EffOut()
		}
	}
	return ch, nil
}

func chainBranch[T any](b *Branch) *compose.ChainBranch {
	if b.Multi {
		return compose.NewChainMultiBranch(func(ctx context.Context, in T) (map[string]bool, error) {
			out := map[string]bool{}
			for _, t := range b.Select(Canon(any(in))) {
				out[t] = true
			}
			return out, nil
		})
	}
	return compose.NewChainBranch(func(ctx context.Context, in T) (string, error) {
		return b.Select(Canon(any(in)))[0], nil
	})
}

// BuildAny builds the (uncompiled) eino object for a spec.
func BuildAny(sp *Spec, path string, bo *BuildOpts) (compose.AnyGraph, error) {
	switch sp.In + sp.Out {
	case "SS":
		return buildAnyT[string, string](sp, path, bo)
	case "SM":
		return buildAnyT[string, map[string]any](sp, path, bo)
	case "MS":
		return buildAnyT[map[string]any, string](sp, path, bo)
	case "MM":
		return buildAnyT[map[string]any, map[string]any](sp, path, bo)
	}
	return nil, fmt.Errorf("bad graph types %s->%s", sp.In, sp.Out)
}

func buildAnyT[I, O any](sp *Spec, path string, bo *BuildOpts) (compose.AnyGraph, error) {
	switch sp.Mode {
	case "pregel", "dag":
		return buildGraph[I, O](sp, path, bo)
	case "workflow":
		return buildWorkflow[I, O](sp, path, bo)
	case "chain":
		return buildChain[I, O](sp, path, bo)
	}
	return nil, fmt.Errorf("bad mode %s", sp.Mode)
}

// graphLambda compiles the nested graph of a graph node on its own and wraps it into a lambda that runs it with
// the node's context ("graph in a lambda": an interrupt inside still is a nested-graph interrupt of the enclosing
// run) and adds context to the error it hands back.
func graphLambda(n *NodeSpec, path string, bo *BuildOpts) (*compose.Lambda, error) {
	switch n.Sub.In + n.Sub.Out {
	case "SS":
		return graphLambdaT[string, string](n, path, bo)
	case "SM":
		return graphLambdaT[string, map[string]any](n, path, bo)
	case "MS":
		return graphLambdaT[map[string]any, string](n, path, bo)
	}
	return graphLambdaT[map[string]any, map[string]any](n, path, bo)
}

func graphLambdaT[I, O any](n *NodeSpec, path string, bo *BuildOpts) (*compose.Lambda, error) {
	ag, err := buildAnyT[I, O](n.Sub, path+n.Key+"/", bo)
	if err != nil {
		return nil, err
	}
	c, ok := ag.(compilable[I, O])
	if !ok {
		return nil, fmt.Errorf("built object %T is not compilable", ag)
	}
	r, err := c.Compile(context.Background(), compileOpts(n.Sub, nil, false)...)
	if err != nil {
		return nil, fmt.Errorf("compile nested graph of %s: %w", n.Key, err)
	}
	key := n.Key
	return compose.InvokableLambda(func(ctx context.Context, in I) (O, error) {
		out, err := r.Invoke(ctx, in)
		if err != nil {
			var z O
			return z, fmt.Errorf("the graph run by node %s did not finish: %w", key, err)
		}
		return out, nil
	}), nil
}

// ---- type-erased runner --------------------------------------------------------

// Runner is a compiled spec with type-erased call methods.
type Runner struct {
	Spec      *Spec
	Invoke    func(ctx context.Context, in any, opts ...compose.Option) (any, error)
	Stream    func(ctx context.Context, in any, opts ...compose.Option) (*schema.StreamReader[any], error)
	Collect   func(ctx context.Context, chunks []any, opts ...compose.Option) (any, error)
	Transform func(ctx context.Context, chunks []any, opts ...compose.Option) (*schema.StreamReader[any], error)
}

// Compile builds and compiles a spec.
func Compile(ctx context.Context, sp *Spec, bo *BuildOpts) (*Runner, error) {
	switch sp.In + sp.Out {
	case "SS":
		return compileT[string, string](ctx, sp, bo)
	case "SM":
		return compileT[string, map[string]any](ctx, sp, bo)
	case "MS":
		return compileT[map[string]any, string](ctx, sp, bo)
	case "MM":
		return compileT[map[string]any, map[string]any](ctx, sp, bo)
	}
	return nil, fmt.Errorf("bad graph types %s->%s", sp.In, sp.Out)
}

type compilable[I, O any] interface {
	Compile(ctx context.Context, opts ...compose.GraphCompileOption) (compose.Runnable[I, O], error)
}

func compileT[I, O any](ctx context.Context, sp *Spec, bo *BuildOpts) (*Runner, error) {
	ag, err := buildAnyT[I, O](sp, "", bo)
	if err != nil {
		return nil, err
	}
	c, ok := ag.(compilable[I, O])
	if !ok {
		return nil, fmt.Errorf("built object %T is not compilable", ag)
	}
	if bo != nil && bo.PreCompile != nil {
		if _, err := c.Compile(ctx, bo.PreCompile...); err != nil {
			return nil, fmt.Errorf("pre-compile: %w", err)
		}
	}
	r, err := c.Compile(ctx, compileOpts(sp, bo, true)...)
	if err != nil {
		return nil, err
	}
	return Erase[I, O](sp, r), nil
}

func toAny[O any](sr *schema.StreamReader[O]) *schema.StreamReader[any] {
	return schema.StreamReaderWithConvert(sr, func(o O) (any, error) { return any(o), nil })
}

func fromChunks[I any](chunks []any) (*schema.StreamReader[I], error) {
	// gathered with room to spare, as a slice built by append usually is: the spare capacity is the caller's
	arr := make([]I, 0, len(chunks)+3)
	for _, c := range chunks {
		x, ok := c.(I)
		if !ok {
			return nil, fmt.Errorf("chunk of type %T for input type", c)
		}
		arr = append(arr, x)
	}
	return schema.StreamReaderFromArray(arr), nil
}

// Erase wraps a typed runnable.
func Erase[I, O any](sp *Spec, r compose.Runnable[I, O]) *Runner {
	return &Runner{
		Spec: sp,
		Invoke: func(ctx context.Context, in any, opts ...compose.Option) (any, error) {
			x, ok := in.(I)
			if !ok {
				return nil, fmt.Errorf("harness: input %T", in)
			}
			o, err := r.Invoke(ctx, x, opts...)
			if err != nil {
				return nil, err
			}
			return any(o), nil
		},
		Stream: func(ctx context.Context, in any, opts ...compose.Option) (*schema.StreamReader[any], error) {
			x, ok := in.(I)
			if !ok {
				return nil, fmt.Errorf("harness: input %T", in)
			}
			sr, err := r.Stream(ctx, x, opts...)
			if err != nil {
				return nil, err
			}
			return toAny(sr), nil
		},
		Collect: func(ctx context.Context, chunks []any, opts ...compose.Option) (any, error) {
			sr, err := fromChunks[I](chunks)
			if err != nil {
				return nil, err
			}
			o, err := r.Collect(ctx, sr, opts...)
			if err != nil {
				return nil, err
			}
			return any(o), nil
		},
		Transform: func(ctx context.Context, chunks []any, opts ...compose.Option) (*schema.StreamReader[any], error) {
			sr, err := fromChunks[I](chunks)
			if err != nil {
				return nil, err
			}
			if env := EnvOf(ctx); env != nil && env.Prod != nil {
				arr := make([]I, 0, len(chunks))
				for _, c := range chunks {
					arr = append(arr, c.(I))
				}
				sr = StartProducer(env.Prod, "<input>", arr)
			}
			o, err := r.Transform(ctx, sr, opts...)
			if err != nil {
				return nil, err
			}
			return toAny(o), nil
		},
	}
}

// DrainAny reads a type-erased stream to the end and concatenates it.
func DrainAny(sr *schema.StreamReader[any]) (any, []any, error) {
	cs, err := drain(sr)
	if err != nil {
		return nil, cs, err
	}
	v, err := ConcatAny(cs)
	return v, cs, err
}

// ---- completion controller ------------------------------------------------------

// Controller lets the harness decide the order in which gated bodies finish.
type Controller struct {
	mu      sync.Mutex
	cond    *sync.Cond
	waiting map[string]int // tag -> number of bodies waiting
	order   []string       // arrival order
	release map[string]int // tag -> permits
	all     bool
}

// NewController creates a controller; bodies block in Wait until released.
func NewController() *Controller {
	c := &Controller{waiting: map[string]int{}, release: map[string]int{}}
	c.cond = sync.NewCond(&c.mu)
	return c
}

// Wait blocks the calling body until its tag is released.
func (c *Controller) Wait(tag string) {
	c.mu.Lock()
	c.waiting[tag]++
	c.order = append(c.order, tag)
	c.cond.Broadcast()
	for !c.all && c.release[tag] == 0 {
		c.cond.Wait()
	}
	if !c.all {
		c.release[tag]--
	}
	c.waiting[tag]--
	c.cond.Broadcast()
	c.mu.Unlock()
}

// Release lets one waiting (or future) body with this tag continue.
func (c *Controller) Release(tag string) {
	c.mu.Lock()
	c.release[tag]++
	c.cond.Broadcast()
	c.mu.Unlock()
}

// ReleaseAll opens every gate from now on.
func (c *Controller) ReleaseAll() {
	c.mu.Lock()
	c.all = true
	c.cond.Broadcast()
	c.mu.Unlock()
}

// Waiting returns the tags currently blocked, in arrival order.
func (c *Controller) Waiting() []string {
	c.mu.Lock()
	defer c.mu.Unlock()
	var out []string
	cnt := map[string]int{}
	for k, v := range c.waiting {
		cnt[k] = v
	}
	for _, t := range c.order {
		if cnt[t] > 0 {
			out = append(out, t)
			cnt[t]--
		}
	}
	return out
}

// AwaitWaiting blocks until at least n bodies are waiting or done() is closed.
func (c *Controller) AwaitWaiting(n int, done <-chan struct{}) bool {
	stop := make(chan struct{})
	defer close(stop)
	go func() {
		select {
		case <-done:
			c.mu.Lock()
			c.cond.Broadcast()
			c.mu.Unlock()
		case <-stop:
		}
	}()
	c.mu.Lock()
	defer c.mu.Unlock()
	for {
		tot := 0
		for _, v := range c.waiting {
			tot += v
		}
		if tot >= n {
			return true
		}
		select {
		case <-done:
			return false
		default:
		}
		c.cond.Wait()
	}
}

// ChunkInput splits an input value into k stream chunks whose concatenation is the value.
func ChunkInput(in any, k int) []any {
	if k < 1 {
		k = 1
	}
	switch x := in.(type) {
	case string:
		var out []any
		for _, c := range chunk(x, k) {
			out = append(out, c)
		}
		return out
	case map[string]any:
		keys := make([]string, 0, len(x))
		for kk := range x {
			keys = append(keys, kk)
		}
		sort.Strings(keys)
		if len(keys) == 0 {
			return []any{x}
		}
		var out []any
		for round := 0; round < k; round++ {
			if round == 0 && k >= 2 && len(keys) >= 2 {
				// one chunk carrying several keys at once
				multi := map[string]any{}
				for _, kk := range keys {
					if s, ok := x[kk].(string); ok {
						multi[kk] = chunk(s, k)[0]
					} else {
						multi[kk] = x[kk]
					}
				}
				out = append(out, multi)
				continue
			}
			for _, kk := range keys {
				s, ok := x[kk].(string)
				if !ok {
					if round == 0 {
						out = append(out, map[string]any{kk: x[kk]})
					}
					continue
				}
				parts := chunk(s, k)
				out = append(out, map[string]any{kk: parts[round]})
			}
		}
		return out
	}
	return []any{in}
}

// ByteStore is a CheckPointStore that keeps only bytes: it copies on Set and on Get, so nothing
// but serialised data survives between calls.  It counts calls per history call index.
type ByteStore struct {
	mu   sync.Mutex
	data map[string][]byte
	Sets []StoreOp
	Gets []StoreOp
	Call *int // points at the driver's current call index (may be nil)
	// FailSet > 0: the FailSet-th Set operation fails (returns ErrStoreSet, stores nothing); Failed lists such operations
	FailSet int
	Failed  []StoreOp
}

// StoreOp is one store access.
type StoreOp struct {
	Call int
	ID   string
	Len  int
}

// ErrStoreSet is what an injected failing Set returns.
var ErrStoreSet = errors.New("gkit: injected checkpoint store failure on Set")

// FailedInCall counts the injected Set failures of the given call.
func (b *ByteStore) FailedInCall(call int) int {
	b.mu.Lock()
	defer b.mu.Unlock()
	c := 0
	for _, s := range b.Failed {
		if s.Call == call {
			c++
		}
	}
	return c
}

// NewByteStore creates an empty store.
func NewByteStore() *ByteStore { return &ByteStore{data: map[string][]byte{}} }

func (b *ByteStore) call() int {
	if b.Call != nil {
		return *b.Call
	}
	return 0
}

// Get implements compose.CheckPointStore.
func (b *ByteStore) Get(ctx context.Context, id string) ([]byte, bool, error) {
	b.mu.Lock()
	defer b.mu.Unlock()
	d, ok := b.data[id]
	b.Gets = append(b.Gets, StoreOp{Call: b.call(), ID: id, Len: len(d)})
	if !ok {
		return nil, false, nil
	}
	return append([]byte(nil), d...), true, nil
}

// Set implements compose.CheckPointStore.
func (b *ByteStore) Set(ctx context.Context, id string, data []byte) error {
	b.mu.Lock()
	defer b.mu.Unlock()
	if b.FailSet > 0 && len(b.Sets)+len(b.Failed)+1 == b.FailSet {
		// injected fault: this write fails, nothing is stored
		b.Failed = append(b.Failed, StoreOp{Call: b.call(), ID: id, Len: len(data)})
		return ErrStoreSet
	}
	b.data[id] = append([]byte(nil), data...)
	b.Sets = append(b.Sets, StoreOp{Call: b.call(), ID: id, Len: len(data)})
	return nil
}

// SetsInCall counts Set operations made during the given call.
func (b *ByteStore) SetsInCall(call int) int {
	b.mu.Lock()
	defer b.mu.Unlock()
	c := 0
	for _, s := range b.Sets {
		if s.Call == call {
			c++
		}
	}
	return c
}

// OwnedStates resolves, for every graph that declares state, the state object most recently
// seen by any callback running under it (callbacks of nested graphs without own state use the
// state of the nearest stateful ancestor).
func (e *CallEnv) OwnedStates(sp *Spec) map[string]*GState {
	e.mu.Lock()
	defer e.mu.Unlock()
	best := map[string]int{}
	out := map[string]*GState{}
	for gp, st := range e.SeenStates {
		parts := []string{}
		if gp != "" {
			parts = strings.Split(strings.TrimSuffix(gp, "/"), "/")
		}
		// nearest stateful ancestor (or self)
		owner := ""
		found := false
		for k := len(parts); k >= 0; k-- {
			cur := sp
			ok := true
			for _, p := range parts[:k] {
				n := cur.Node(p)
				if n == nil || n.Sub == nil {
					ok = false
					break
				}
				cur = n.Sub
			}
			if ok && cur.State {
				owner = strings.Join(parts[:k], "/")
				if k > 0 {
					owner += "/"
				}
				found = true
				break
			}
		}
		if !found {
			continue
		}
		if e.SeenSeq[gp] > best[owner] {
			best[owner] = e.SeenSeq[gp]
			out[owner] = st
		}
	}
	// A state is restored from the checkpoint into a new object in every call of a history, so one lineage
	// (same Gen) is seen as several objects whose logs only grow.  A body of an earlier call that is still
	// running (a node that does not lead to END) may be the last to touch its own, older object: within the
	// lineage of the most recently seen object the one with the longest log is the current one.
	owners := map[string]string{} // graph path -> owner, recomputed cheaply through out's keys
	for gp := range e.SeenAll {
		bestOwner, bestLen := "", -1
		for o := range out {
			if strings.HasPrefix(gp, o) && len(o) > bestLen {
				bestOwner, bestLen = o, len(o)
			}
		}
		if bestLen >= 0 {
			owners[gp] = bestOwner
		}
	}
	for gp, all := range e.SeenAll {
		o, ok := owners[gp]
		if !ok || out[o] == nil {
			continue
		}
		e.StateMu.Lock()
		for _, st := range all {
			if st == nil || st.Gen != out[o].Gen {
				continue
			}
			// the object restored by the latest call is the current one (bodies of a call only ever touch that
			// call's object, so the call index carried by their context identifies it); where no call index is
			// known the longest log decides
			if cs, co := e.SeenCall[st], e.SeenCall[out[o]]; cs > co || (cs == co && len(st.Log) > len(out[o].Log)) {
				out[o] = st
			}
		}
		e.StateMu.Unlock()
	}
	return out
}
