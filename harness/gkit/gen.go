package gkit

import (
	"fmt"

	rapid "github.com/cloudwego/eino/internal/vrapid"
)

// GenCfg bounds the generators (limits are the harness', not the code's).
type GenCfg struct {
	MaxNodes  int
	Depth     int  // nesting levels still allowed
	Cycles    bool // back edges (pregel only)
	In        string
	NoFailMix bool // avoid shapes whose outcome is a merge failure
	Paradigms bool // draw native paradigm subsets and chunk plans (C04)
	StreamBr  bool // allow stream branch conditions
	SubModes  []string
	WfPass    bool     // allow passthrough nodes in workflows
	State     bool     // graphs may have state with pre/post handlers
	PS        bool     // bodies may call ProcessState
	InKeys    []string // known keys of a map typed graph input (top level: InputKeys)
	sub       bool
}

func (c GenCfg) inKeys() []string {
	if c.sub {
		return c.InKeys
	}
	return InputKeys
}

func splitKT(kt string) (string, string) {
	for i := len(kt) - 1; i >= 0; i-- {
		if kt[i] == ':' {
			return kt[:i], kt[i+1:]
		}
	}
	return kt, "S"
}

func innerOut(n *NodeSpec) string {
	switch n.Kind {
	case "graph":
		return n.Sub.Out
	case "pass":
		if n.InputKey != "" {
			return "S"
		}
		return n.In
	}
	return "S"
}

func pct(t *rapid.T, p int, label string) bool {
	return rapid.IntRange(0, 99).Draw(t, label) < p
}

func pick[T any](t *rapid.T, xs []T, label string) T {
	return xs[rapid.IntRange(0, len(xs)-1).Draw(t, label)]
}

var paraSets = []string{"I", "S", "C", "T", "IS", "IC", "IT", "SC", "ST", "CT", "ISC", "IST", "ICT", "SCT", "ISCT"}

// addState turns a spec into a stateful one (with some probability) and hangs handlers on nodes.
func addState(t *rapid.T, sp *Spec, cfg GenCfg, inherited bool) {
	if !cfg.State {
		return
	}
	sp.State = pct(t, 60, "state")
	each := func(n *NodeSpec) {
		if n.Kind == "pass" {
			return
		}
		if sp.State {
			if pct(t, 35, "preH") {
				n.PreH = pick(t, []string{"v", "v", "s"}, "preKind")
			}
			if pct(t, 35, "postH") {
				n.PostH = pick(t, []string{"v", "v", "s"}, "postKind")
			}
		}
		if cfg.PS && n.Kind == "lambda" && (sp.State || inherited) && pct(t, 35, "ps") {
			n.PS = true
		}
	}
	for i := range sp.Nodes {
		each(&sp.Nodes[i])
	}
	for si := range sp.Stages {
		for i := range sp.Stages[si].Nodes {
			each(&sp.Stages[si].Nodes[i])
		}
	}
	// sub graphs decide for themselves; they inherit access to a state when an ancestor has one
	var walk func(n *NodeSpec)
	walk = func(n *NodeSpec) {
		if n.Kind == "graph" {
			addState(t, n.Sub, cfg, inherited || sp.State)
		}
	}
	for i := range sp.Nodes {
		walk(&sp.Nodes[i])
	}
	for si := range sp.Stages {
		for i := range sp.Stages[si].Nodes {
			walk(&sp.Stages[si].Nodes[i])
		}
	}
}

func decorate(t *rapid.T, n *NodeSpec, cfg GenCfg) {
	if cfg.Paradigms && n.Kind == "lambda" {
		n.Para = pick(t, paraSets, "para")
		n.Chunks = rapid.IntRange(1, 5).Draw(t, "chunks")
	}
}

// genNodeFor draws a node that accepts a value of type inT produced by a predecessor whose
// known map keys are predKeys (nil when unknown).
func genNodeFor(t *rapid.T, key string, inT string, predKeys []string, cfg GenCfg) NodeSpec {
	n := NodeSpec{Key: key}
	k := rapid.IntRange(0, 99).Draw(t, "nodeKind")
	switch {
	case k < 8:
		n.Kind = "pass"
		n.In = inT
		return n
	case k < 22 && cfg.Depth > 0:
		n.Kind = "graph"
		sub := cfg
		sub.Depth--
		sub.MaxNodes = 3
		sub.In = inT
		sub.InKeys = predKeys
		sub.sub = true
		mode := "pregel"
		if len(cfg.SubModes) > 0 {
			mode = pick(t, cfg.SubModes, "subMode")
		}
		n.Sub = GenSpec(t, mode, sub)
	default:
		n.Kind = "lambda"
		n.In = inT
		n.Digest = pct(t, 70, "digest")
		if inT == "M" && len(predKeys) > 0 && pct(t, 30, "useInputKey") {
			// predKeys entries are "key:T" (T = type of the value under the key)
			kt := pick(t, predKeys, "inputKey")
			n.InputKey, n.In = splitKT(kt)
		}
		decorate(t, &n, cfg)
	}
	if pct(t, 40, "outputKey") {
		n.OutputKey = key
	}
	return n
}

// GenTop draws a top-level spec and decorates it (state).
func GenTop(t *rapid.T, mode string, cfg GenCfg) *Spec {
	sp := GenSpec(t, mode, cfg)
	addState(t, sp, cfg, false)
	return sp
}

// GenSpec draws a spec of the given mode.
func GenSpec(t *rapid.T, mode string, cfg GenCfg) *Spec {
	switch mode {
	case "chain":
		return genChain(t, cfg)
	case "workflow":
		return genWorkflow(t, cfg)
	}
	return genGraph(t, mode, cfg)
}

// InputKeys are the keys of generated map inputs.
var InputKeys = []string{"x:S", "y:S"}

// GenInput draws an input value of the given type.
func GenInput(t *rapid.T, typ string) any {
	s := func(l string) string { return rapid.StringMatching("[a-c]{0,3}").Draw(t, l) }
	if typ == "S" {
		return s("in")
	}
	return map[string]any{"x": s("inx"), "y": s("iny")}
}

type genState struct {
	t    *rapid.T
	sp   *Spec
	cfg  GenCfg
	keys map[string][]string // known map keys of a producer
}

func (g *genState) outKeys(key string) []string { return g.keys[key] }

// ownKey: the producer emits a map with exactly its own output key.
func (g *genState) ownKey(key string) bool {
	n := g.sp.Node(key)
	return n != nil && n.OutputKey == key
}

func (g *genState) noteKeys(n *NodeSpec, pred string) {
	switch {
	case n.OutputKey != "":
		g.keys[n.Key] = []string{n.OutputKey + ":" + innerOut(n)}
	case n.Kind == "pass" && n.InputKey == "":
		g.keys[n.Key] = g.keys[pred]
	}
}

func (g *genState) hasEdge(f, to string) bool {
	for _, e := range g.sp.Edges {
		if e.From == f && e.To == to {
			return true
		}
	}
	for _, b := range g.sp.Branches {
		if b.From == f {
			for _, x := range b.Targets {
				if x == to {
					return true
				}
			}
		}
	}
	return false
}

func (g *genState) nDataPreds(to string) int {
	c := 0
	for _, e := range g.sp.Edges {
		if e.To == to && !e.NoData {
			c++
		}
	}
	for _, b := range g.sp.Branches {
		for _, x := range b.Targets {
			if x == to {
				c++
			}
		}
	}
	return c
}

func idx(sp *Spec, key string) int {
	if key == Start {
		return -1
	}
	for i := range sp.Nodes {
		if sp.Nodes[i].Key == key {
			return i
		}
	}
	return len(sp.Nodes)
}

// genGraph draws a pregel or dag graph by construction: every node gets a primary
// predecessor of a matching type, then fan-in / back edges / branches are added.
func genGraph(t *rapid.T, mode string, cfg GenCfg) *Spec {
	sp := &Spec{Mode: mode, In: cfg.In}
	if sp.In == "" {
		sp.In = pick(t, []string{"S", "S", "M"}, "graphIn")
	}
	g := &genState{t: t, sp: sp, cfg: cfg, keys: map[string][]string{}}
	if sp.In == "M" {
		g.keys[Start] = cfg.inKeys()
	}
	n := rapid.IntRange(1, cfg.MaxNodes).Draw(t, "nNodes")
	pending := map[string][]string{} // branch targets per source
	var pendOrder []string
	for i := 0; i < n; i++ {
		key := fmt.Sprintf("n%d", i)
		// primary predecessor: START or an earlier node, biased to recent ones
		var pred string
		if i == 0 || pct(t, 20, "predStart") {
			pred = Start
		} else {
			lo := 0
			if pct(t, 60, "predRecent") && i > 2 {
				lo = i - 2
			}
			pred = sp.Nodes[rapid.IntRange(lo, i-1).Draw(t, "pred")].Key
		}
		node := genNodeFor(t, key, sp.OutType(pred), g.outKeys(pred), cfg)
		sp.Nodes = append(sp.Nodes, node)
		g.noteKeys(&sp.Nodes[i], pred)
		if pct(t, 35, "viaBranch") {
			if _, ok := pending[pred]; !ok {
				pendOrder = append(pendOrder, pred)
			}
			pending[pred] = append(pending[pred], key)
		} else {
			sp.Edges = append(sp.Edges, Edge{From: pred, To: key})
		}
	}
	// exit: a node whose output becomes the graph output
	exit := sp.Nodes[rapid.IntRange(maxInt(0, n-2), n-1).Draw(t, "exit")].Key
	sp.Out = sp.OutType(exit)
	endViaBranch := false
	if pct(t, 30, "endViaBranch") {
		if _, ok := pending[exit]; !ok {
			pendOrder = append(pendOrder, exit)
		}
		pending[exit] = append(pending[exit], End)
		endViaBranch = true
	} else {
		sp.Edges = append(sp.Edges, Edge{From: exit, To: End})
	}
	// branches from the pending lists; single-target lists get a second target
	for _, from := range pendOrder {
		ts := pending[from]
		fi := idx(sp, from)
		if len(ts) == 1 {
			var cands []string
			for j := range sp.Nodes {
				c := &sp.Nodes[j]
				if c.Key == ts[0] || c.EffIn() != sp.OutType(from) {
					continue
				}
				if c.Key == from && !(mode == "pregel" && cfg.Cycles) {
					continue // a self loop is a cycle
				}
				if j <= fi && !(mode == "pregel" && cfg.Cycles) {
					continue
				}
				if g.hasEdge(from, c.Key) {
					continue
				}
				if j > fi && cfg.NoFailMix && g.nDataPreds(c.Key) > 0 {
					mergeable := c.EffIn() == "M" && g.ownKey(from)
					if !mergeable {
						continue
					}
				}
				cands = append(cands, c.Key)
			}
			if sp.OutType(from) == sp.Out && ts[0] != End && !g.hasEdge(from, End) {
				cands = append(cands, End)
			}
			if len(cands) == 0 {
				sp.Edges = append(sp.Edges, Edge{From: from, To: ts[0]})
				if ts[0] == End {
					endViaBranch = false
				}
				continue
			}
			ts = append(ts, pick(t, cands, "branchSecond"))
		}
		b := Branch{From: from, Targets: ts, Multi: pct(t, 30, "multi"), Salt: rapid.IntRange(0, 7).Draw(t, "salt")}
		if cfg.StreamBr {
			b.Stream = pct(t, 40, "streamBranch")
		}
		sp.Branches = append(sp.Branches, b)
		if mode == "pregel" && pct(t, 15, "edgeBesideBranch") {
			// an edge to one of the branch's own targets: that successor receives the value whatever the branch decides
			to := pick(t, ts, "edgeBesideBranchTo")
			plain := false
			for _, e := range sp.Edges {
				if e.From == from && e.To == to {
					plain = true
				}
			}
			if !plain {
				sp.Edges = append(sp.Edges, Edge{From: from, To: to})
			}
		}
		if pct(t, 20, "secondBranch") {
			// a second branch of the same node over the same targets: a target is skipped only when no
			// branch selects it
			b2 := Branch{From: from, Targets: append([]string(nil), ts...), Multi: pct(t, 50, "multi2"), Salt: rapid.IntRange(8, 15).Draw(t, "salt2"), Stream: b.Stream}
			sp.Branches = append(sp.Branches, b2)
		}
	}
	_ = endViaBranch
	// extra connections: fan-in into map typed nodes, back edges, joins after branches
	extra := rapid.IntRange(0, n).Draw(t, "nExtra")
	for x := 0; x < extra; x++ {
		a := rapid.IntRange(-1, n-1).Draw(t, "xa")
		b := rapid.IntRange(0, n).Draw(t, "xb")
		from := Start
		if a >= 0 {
			from = sp.Nodes[a].Key
		}
		to := End
		if b < n {
			to = sp.Nodes[b].Key
		}
		if g.hasEdge(from, to) || sp.OutType(from) != sp.InType(to) {
			continue
		}
		if from == to && !(mode == "pregel" && cfg.Cycles) {
			continue
		}
		back := b <= a
		if back && !(mode == "pregel" && cfg.Cycles) {
			continue
		}
		if !back {
			mergeable := sp.InType(to) == "M" && g.ownKey(from)
			if !mergeable && (cfg.NoFailMix || !pct(t, 25, "riskyFanIn")) {
				continue
			}
		}
		sp.Edges = append(sp.Edges, Edge{From: from, To: to})
	}
	// joins: all targets of a single-select branch feed one later node of the same input type
	for _, b := range sp.Branches {
		if b.Multi || !pct(t, 50, "join") {
			continue
		}
		last := -1
		typ := ""
		ok := true
		for _, tg := range b.Targets {
			if tg == End {
				ok = false
				break
			}
			if typ == "" {
				typ = sp.OutType(tg)
			} else if typ != sp.OutType(tg) {
				ok = false
			}
			if i := idx(sp, tg); i > last {
				last = i
			}
		}
		if !ok {
			continue
		}
		for j := last + 1; j <= n; j++ {
			to := End
			if j < n {
				to = sp.Nodes[j].Key
			}
			if sp.InType(to) != typ {
				continue
			}
			for _, tg := range b.Targets {
				if !g.hasEdge(tg, to) {
					sp.Edges = append(sp.Edges, Edge{From: tg, To: to})
				}
			}
			break
		}
	}
	// nodes without successors mostly get one
	for i := range sp.Nodes {
		k := sp.Nodes[i].Key
		has := false
		for _, e := range sp.Edges {
			if e.From == k {
				has = true
			}
		}
		for _, b := range sp.Branches {
			if b.From == k {
				has = true
			}
		}
		if has || !pct(t, 75, "fixDangling") {
			continue
		}
		for j := i + 1; j <= n; j++ {
			to := End
			if j < n {
				to = sp.Nodes[j].Key
			}
			if sp.InType(to) != sp.OutType(k) {
				continue
			}
			mergeable := sp.InType(to) == "M" && g.ownKey(k)
			if g.nDataPreds(to) > 0 && !mergeable {
				continue
			}
			sp.Edges = append(sp.Edges, Edge{From: k, To: to})
			break
		}
	}
	if mode == "pregel" && pct(t, 30, "maxSteps") {
		sp.MaxSteps = rapid.IntRange(1, n+4).Draw(t, "maxStepsV")
	}
	if pct(t, 8, "orphan") {
		// a node nothing routes to: it must never run
		sp.Nodes = append(sp.Nodes, NodeSpec{Key: fmt.Sprintf("n%d", n), Kind: "lambda", In: pick(t, []string{"S", "M"}, "orphanIn"), Digest: true})
	}
	return sp
}

func maxInt(a, b int) int {
	if a > b {
		return a
	}
	return b
}

// genWorkflow draws a Workflow: acyclic, control-only / data-only / combined dependencies,
// field mappings to map keys for fan-in, branches without data flow.
func genWorkflow(t *rapid.T, cfg GenCfg) *Spec {
	sp := &Spec{Mode: "workflow", In: cfg.In}
	if sp.In == "" {
		sp.In = pick(t, []string{"S", "S", "M"}, "wfIn")
	}
	n := rapid.IntRange(1, cfg.MaxNodes).Draw(t, "nNodes")
	type pendingBranch struct {
		from string
		ts   []string
	}
	pend := map[string]*pendingBranch{}
	var pendOrder []string
	for i := 0; i < n; i++ {
		key := fmt.Sprintf("n%d", i)
		srcs := []string{Start}
		for j := 0; j < i; j++ {
			srcs = append(srcs, sp.Nodes[j].Key)
		}
		// number of data predecessors: 0 (control only), 1 (whole value) or several (mapped to keys)
		nd := pick(t, []int{1, 1, 1, 1, 2, 2, 3, 0}, "nData")
		if nd > len(srcs) {
			nd = len(srcs)
		}
		node := NodeSpec{Key: key, Kind: "lambda", Digest: pct(t, 70, "digest")}
		var preds []string
		used := map[string]bool{}
		for len(preds) < nd {
			p := pick(t, srcs, "dpred")
			if !used[p] {
				used[p] = true
				preds = append(preds, p)
			}
		}
		mapped := nd >= 2 || (nd == 1 && pct(t, 25, "mapSingle"))
		switch {
		case nd == 0:
			node.In = pick(t, []string{"S", "M"}, "zeroIn")
		case mapped:
			node.In = "M"
		default:
			node.In = sp.OutType(preds[0])
			if cfg.Depth > 0 && pct(t, 12, "wfSub") {
				node.Kind = "graph"
				sub := cfg
				sub.Depth--
				sub.MaxNodes = 3
				sub.In = node.In
				sub.InKeys = nil
				sub.sub = true
				node.Sub = GenSpec(t, pick(t, []string{"pregel", "dag", "workflow"}, "subMode"), sub)
			} else if cfg.WfPass && pct(t, 8, "wfPass") {
				// passthrough typing by inference ignores field mappings on the successor edge and depends
				// on map iteration order in Workflow.compile (see DESIGN.md findings); off by default
				node.Kind = "pass"
			}
		}
		if node.Kind == "lambda" {
			decorate(t, &node, cfg)
		}
		if node.Kind == "lambda" && mapped && node.InputKey == "" && pct(t, 12, "staticValue") {
			node.Static = "sv"
		}
		if node.Kind != "pass" && pct(t, 15, "outputKey") {
			node.OutputKey = key
		}
		sp.Nodes = append(sp.Nodes, node)
		hasControl := false
		for _, p := range preds {
			e := Edge{From: p, To: key}
			if mapped {
				e.ToKey = p
			}
			if pct(t, 25, "dataOnly") {
				e.NoControl = true
			} else {
				hasControl = true
			}
			sp.Edges = append(sp.Edges, e)
		}
		// extra control-only dependencies
		if pct(t, 25, "ctlDep") || !hasControl {
			var cands []string
			for _, s := range srcs {
				if !used[s] {
					cands = append(cands, s)
				}
			}
			viaBranch := pct(t, 55, "ctlViaBranch")
			if len(cands) == 0 || (viaBranch && len(preds) > 0) {
				// control through a branch of one of the data predecessors (which then must be data-only)
				// or of any earlier node
				p := pick(t, srcs, "branchSrc")
				// an edge with control from p would make the branch decision irrelevant: demote it
				for ei := range sp.Edges {
					if sp.Edges[ei].From == p && sp.Edges[ei].To == key {
						sp.Edges[ei].NoControl = true
					}
				}
				if pend[p] == nil {
					pend[p] = &pendingBranch{from: p}
					pendOrder = append(pendOrder, p)
				}
				pend[p].ts = append(pend[p].ts, key)
				hasControl = true
			} else {
				p := pick(t, cands, "ctlSrc")
				sp.Edges = append(sp.Edges, Edge{From: p, To: key, NoData: true})
				hasControl = true
			}
		}
		// a node whose only control is a branch may have lost every direct control edge; fine.
		_ = hasControl
	}
	// END: one whole-value predecessor, or several mapped to keys
	nEnd := pick(t, []int{1, 1, 2, 3}, "nEnd")
	if nEnd > n {
		nEnd = n
	}
	used := map[string]bool{}
	var ends []string
	for len(ends) < nEnd {
		p := sp.Nodes[rapid.IntRange(maxInt(0, n-4), n-1).Draw(t, "endPred")].Key
		if !used[p] {
			used[p] = true
			ends = append(ends, p)
		}
	}
	if nEnd == 1 && pct(t, 75, "endWhole") {
		sp.Out = sp.OutType(ends[0])
		sp.Edges = append(sp.Edges, Edge{From: ends[0], To: End})
	} else {
		sp.Out = "M"
		for _, p := range ends {
			sp.Edges = append(sp.Edges, Edge{From: p, To: End, ToKey: p})
		}
	}
	for _, from := range pendOrder {
		pb := pend[from]
		if len(pb.ts) == 1 {
			// second target: END or any later node that does not already depend on from with control
			fi := idx(sp, from)
			var cands []string
			for j := fi + 1; j < n; j++ {
				k := sp.Nodes[j].Key
				if k == pb.ts[0] {
					continue
				}
				ctl := false
				for _, e := range sp.Edges {
					if e.From == from && e.To == k && !e.NoControl {
						ctl = true
					}
				}
				if !ctl {
					cands = append(cands, k)
				}
			}
			endCtl := false
			for _, e := range sp.Edges {
				if e.From == from && e.To == End {
					endCtl = true
				}
			}
			if !endCtl {
				cands = append(cands, End)
			}
			if len(cands) == 0 {
				// no second target: turn the branch into a plain control dependency
				found := false
				for ei := range sp.Edges {
					if sp.Edges[ei].From == from && sp.Edges[ei].To == pb.ts[0] {
						sp.Edges[ei].NoControl = false
						found = true
					}
				}
				if !found {
					sp.Edges = append(sp.Edges, Edge{From: from, To: pb.ts[0], NoData: true})
				}
				continue
			}
			pb.ts = append(pb.ts, pick(t, cands, "branchSecond"))
		}
		sp.Branches = append(sp.Branches, Branch{From: from, Targets: pb.ts, Multi: pct(t, 35, "multi"), Salt: rapid.IntRange(0, 7).Draw(t, "salt")})
		if pct(t, 20, "secondBranch") {
			sp.Branches = append(sp.Branches, Branch{From: from, Targets: append([]string(nil), pb.ts...), Multi: pct(t, 50, "multi2"), Salt: rapid.IntRange(8, 15).Draw(t, "salt2")})
		}
	}
	// compile needs a control edge out of START and one into END
	hasStart, hasEnd := false, false
	for _, e := range sp.Edges {
		if e.From == Start && !e.NoControl {
			hasStart = true
		}
		if e.To == End && !e.NoControl {
			hasEnd = true
		}
	}
	if !hasStart {
		inStartBranch := map[string]bool{}
		for _, b := range sp.Branches {
			if b.From == Start {
				for _, x := range b.Targets {
					inStartBranch[x] = true
				}
			}
		}
		fixed := false
		for ei := range sp.Edges {
			if sp.Edges[ei].From == Start && sp.Edges[ei].NoControl && !inStartBranch[sp.Edges[ei].To] {
				sp.Edges[ei].NoControl = false
				fixed = true
				break
			}
		}
		if !fixed {
			for i := range sp.Nodes {
				k := sp.Nodes[i].Key
				dup := inStartBranch[k]
				for _, e := range sp.Edges {
					if e.From == Start && e.To == k {
						dup = true
					}
				}
				if !dup {
					sp.Edges = append(sp.Edges, Edge{From: Start, To: k, NoData: true})
					fixed = true
					break
				}
			}
		}
		if !fixed {
			// every node is a target of a START branch: replace those branches by plain control dependencies
			var keep []Branch
			for _, b := range sp.Branches {
				if b.From != Start {
					keep = append(keep, b)
					continue
				}
				for _, x := range b.Targets {
					found := false
					for ei := range sp.Edges {
						if sp.Edges[ei].From == Start && sp.Edges[ei].To == x {
							sp.Edges[ei].NoControl = false
							found = true
						}
					}
					if !found {
						sp.Edges = append(sp.Edges, Edge{From: Start, To: x, NoData: true})
					}
				}
			}
			sp.Branches = keep
		}
	}
	_ = hasEnd
	if pct(t, 8, "orphan") {
		sp.Nodes = append(sp.Nodes, NodeSpec{Key: fmt.Sprintf("n%d", n), Kind: "lambda", In: pick(t, []string{"S", "M"}, "orphanIn"), Digest: true})
	}
	return dedupeWorkflow(sp)
}

// dedupeWorkflow removes combinations the Workflow API cannot express (two relations
// between the same pair of nodes).
func dedupeWorkflow(sp *Spec) *Spec {
	seen := map[string]bool{}
	var out []Edge
	for _, e := range sp.Edges {
		k := e.From + ">" + e.To
		if seen[k] {
			continue
		}
		seen[k] = true
		out = append(out, e)
	}
	sp.Edges = out
	return sp
}

// genChain draws a chain: stages of node / parallel / branch.
func genChain(t *rapid.T, cfg GenCfg) *Spec {
	sp := &Spec{Mode: "chain", In: cfg.In}
	if sp.In == "" {
		sp.In = pick(t, []string{"S", "S", "M"}, "chainIn")
	}
	ns := rapid.IntRange(1, cfg.MaxNodes).Draw(t, "nStages")
	cur := sp.In
	var curKeys []string
	if cur == "M" {
		curKeys = cfg.inKeys()
	}
	prevKind := ""
	ctr := 0
	next := func() string { ctr++; return fmt.Sprintf("c%d", ctr) }
	for s := 0; s < ns; s++ {
		k := rapid.IntRange(0, 99).Draw(t, "stageKind")
		switch {
		case k < 22 && prevKind == "" || k < 22 && prevKind == "node":
			// parallel: 2-3 nodes, merged by key
			st := Stage{Kind: "parallel"}
			m := rapid.IntRange(2, 3).Draw(t, "parN")
			for i := 0; i < m; i++ {
				n := genNodeFor(t, next(), cur, curKeys, cfg)
				n.OutputKey = n.Key
				st.Nodes = append(st.Nodes, n)
			}
			sp.Stages = append(sp.Stages, st)
			cur = "M"
			curKeys = nil
			for i := range st.Nodes {
				curKeys = append(curKeys, st.Nodes[i].OutputKey+":"+innerOut(&st.Nodes[i]))
			}
			prevKind = "parallel"
		case k < 44 && (prevKind == "" || prevKind == "node"):
			st := Stage{Kind: "branch", Multi: false, Salt: rapid.IntRange(0, 7).Draw(t, "salt")}
			m := rapid.IntRange(2, 3).Draw(t, "brN")
			outT := ""
			for i := 0; i < m; i++ {
				n := genNodeFor(t, next(), cur, curKeys, cfg)
				if n.Kind == "pass" {
					n.Kind = "lambda"
					n.Digest = true
					decorate(t, &n, cfg)
				}
				// all alternatives must produce the same type for the next stage
				if outT == "" {
					outT = n.EffOut()
				}
				if n.EffOut() != outT {
					if outT == "M" {
						n.OutputKey = n.Key
					} else {
						n.OutputKey = ""
						if n.EffOut() != "S" { // graph with map output
							n = NodeSpec{Key: n.Key, Kind: "lambda", In: cur, Digest: true}
							decorate(t, &n, cfg)
						}
					}
				}
				st.Nodes = append(st.Nodes, n)
			}
			if outT == "M" && pct(t, 35, "chainMulti") {
				ok := true
				for _, n := range st.Nodes {
					if n.OutputKey != n.Key {
						ok = false
					}
				}
				st.Multi = ok
			}
			sp.Stages = append(sp.Stages, st)
			cur = outT
			curKeys = nil
			prevKind = "branch"
		default:
			n := genNodeFor(t, next(), cur, curKeys, cfg)
			sp.Stages = append(sp.Stages, Stage{Kind: "node", Nodes: []NodeSpec{n}})
			if n.Kind != "pass" {
				curKeys = nil
				if n.OutputKey != "" {
					curKeys = []string{n.OutputKey + ":" + innerOut(&n)}
				}
			}
			cur = n.EffOut()
			prevKind = "node"
		}
	}
	sp.Out = cur
	return sp
}

// GenWide builds a fan-in of generated width (1..8) into END: width producers fed by START whose
// outputs are merged by key (graph modes), mapped into fields of END's input (workflow), or the
// nodes of one parallel stage (chain).  Used to reach width-dependent code in stream merging.
func GenWide(t *rapid.T, cfg GenCfg) *Spec {
	mode := []string{"pregel", "dag", "workflow", "chain"}[rapid.IntRange(0, 3).Draw(t, "wideMode")]
	width := rapid.IntRange(1, 8).Draw(t, "width")
	paras := []string{"I", "IS", "IT", "ISCT", "S", "T", "C", "SC"}
	lambda := func(key string) NodeSpec {
		n := NodeSpec{Key: key, Kind: "lambda", In: "S", Chunks: rapid.IntRange(1, 4).Draw(t, "chunks")}
		if cfg.Paradigms {
			n.Para = paras[rapid.IntRange(0, len(paras)-1).Draw(t, "para")]
		}
		return n
	}
	sp := &Spec{Mode: mode, In: "S", Out: "M"}
	fromKeys := mode == "workflow" && rapid.Bool().Draw(t, "fromKeys")
	if fromKeys {
		// map-typed input; every producer takes one field of it (streamed input chunks may lack that field)
		sp.In = "M"
	}
	if mode == "chain" {
		if width < 2 {
			width = 2
		}
		st := Stage{Kind: "parallel"}
		for i := 0; i < width; i++ {
			n := lambda(fmt.Sprintf("c%d", i))
			n.OutputKey = n.Key
			st.Nodes = append(st.Nodes, n)
		}
		sp.Stages = append(sp.Stages, st)
		return sp
	}
	if mode != "workflow" && rapid.IntRange(0, 2).Draw(t, "keyedPass") == 0 {
		// a nested producer under an output key, a pass-through node that picks that key again, and a consumer
		// whose input (map) and output (string) types differ
		inner := lambda("q")
		inner.OutputKey = "q"
		g := NodeSpec{Key: "kg", Kind: "graph", In: "S", OutputKey: "g",
			Sub: &Spec{Mode: []string{"pregel", "dag"}[rapid.IntRange(0, 1).Draw(t, "kgMode")], In: "S", Out: "M", Nodes: []NodeSpec{inner}, Edges: []Edge{{From: Start, To: "q"}, {From: "q", To: End}}}}
		pass := NodeSpec{Key: "kp", Kind: "pass", In: "M", InputKey: "g"}
		cons := NodeSpec{Key: "kc", Kind: "lambda", In: "M", OutputKey: "kc", Chunks: rapid.IntRange(1, 3).Draw(t, "kcChunks")}
		if cfg.Paradigms {
			cons.Para = paras[rapid.IntRange(0, len(paras)-1).Draw(t, "kcPara")]
		}
		sp.Nodes = append(sp.Nodes, g, pass, cons)
		// the order decides whether the pass-through node takes its type from its successor or its predecessor
		if rapid.Bool().Draw(t, "typedFromSuccessor") {
			sp.Edges = append(sp.Edges, Edge{From: "kp", To: "kc"}, Edge{From: Start, To: "kg"}, Edge{From: "kg", To: "kp"}, Edge{From: "kc", To: End})
		} else {
			sp.Edges = append(sp.Edges, Edge{From: Start, To: "kg"}, Edge{From: "kg", To: "kp"}, Edge{From: "kp", To: "kc"}, Edge{From: "kc", To: End})
		}
		if mode == "pregel" || rapid.Bool().Draw(t, "keyedAlone") {
			// this chain alone: the consumer's own output type (string, no output key) is the graph's output
			sp.Nodes[len(sp.Nodes)-1].OutputKey = ""
			sp.Out = "S"
			return sp
		}
		// in all-predecessor mode END waits for the wide producers too
	}
	for i := 0; i < width; i++ {
		n := lambda(fmt.Sprintf("w%d", i))
		e := Edge{From: n.Key, To: End}
		if mode == "workflow" {
			e.ToKey = n.Key
		} else {
			n.OutputKey = n.Key
		}
		sp.Nodes = append(sp.Nodes, n)
		se := Edge{From: Start, To: n.Key}
		if fromKeys {
			se.FromKey = []string{"x", "y"}[rapid.IntRange(0, 1).Draw(t, "fromKey")]
		}
		sp.Edges = append(sp.Edges, se, e)
	}
	return sp
}

// GenJoinMix builds a join that its predecessors reach in different ways in ONE step: 2-5 producers fed by
// START (they run concurrently), each connected to the join node j either by a plain edge or through a branch
// (forced to select j, its alternative, or both); alternatives and j feed END by key.  Mode dag (mostly) or
// pregel.  Used where the order in which the producers of one step finish matters (C02, C03).
func GenJoinMix(t *rapid.T, cfg GenCfg) *Spec {
	mode := []string{"dag", "dag", "dag", "pregel"}[rapid.IntRange(0, 3).Draw(t, "joinMode")]
	sp := &Spec{Mode: mode, In: "S", Out: "M"}
	k := rapid.IntRange(2, 5).Draw(t, "producers")
	sp.Nodes = append(sp.Nodes, NodeSpec{Key: "j", Kind: "lambda", In: "M", OutputKey: "j", Digest: true})
	sp.Edges = append(sp.Edges, Edge{From: "j", To: End})
	edges, branches := 0, 0
	for i := 0; i < k; i++ {
		p := NodeSpec{Key: fmt.Sprintf("p%d", i), Kind: "lambda", In: "S"}
		p.OutputKey = p.Key
		sp.Nodes = append(sp.Nodes, p)
		sp.Edges = append(sp.Edges, Edge{From: Start, To: p.Key})
		how := rapid.IntRange(0, 2).Draw(t, "how")
		if i == k-1 && edges == 0 {
			how = 0
		}
		if i == k-2 && branches == 0 {
			how = 1
		}
		if how == 0 {
			sp.Edges = append(sp.Edges, Edge{From: p.Key, To: "j"})
			edges++
			continue
		}
		branches++
		alt := NodeSpec{Key: fmt.Sprintf("q%d", i), Kind: "lambda", In: "M", Digest: true}
		alt.OutputKey = alt.Key
		sp.Nodes = append(sp.Nodes, alt)
		sp.Edges = append(sp.Edges, Edge{From: alt.Key, To: End})
		b := Branch{From: p.Key, Targets: []string{"j", alt.Key}}
		switch rapid.IntRange(0, 5).Draw(t, "select") {
		case 0:
			b.Force = []string{alt.Key}
		case 1:
			b.Multi = true
			b.Force = []string{"j", alt.Key}
		default:
			b.Force = []string{"j"}
		}
		if len(b.Force) > 1 {
			b.Multi = true
		}
		sp.Branches = append(sp.Branches, b)
		if how == 2 {
			// a second branch of the same producer over the same targets
			b2 := Branch{From: p.Key, Targets: []string{"j", alt.Key}, Force: []string{[]string{"j", alt.Key}[rapid.IntRange(0, 1).Draw(t, "select2")]}}
			sp.Branches = append(sp.Branches, b2)
		}
	}
	return sp
}

// GenTwoJoins: the graph's (map) input passes through a pass-through node and fans out into two joins, each of
// which also merges the keyed output of a second producer of the same step.  In Collect / Transform calls the
// input is an array-backed stream that is copied for the two joins.
func GenTwoJoins(t *rapid.T, cfg GenCfg) *Spec {
	paras := []string{"I", "IS", "IT", "ISCT", "S", "T", "C", "SC"}
	lambda := func(key, in string) NodeSpec {
		n := NodeSpec{Key: key, Kind: "lambda", In: in, Digest: true, Chunks: rapid.IntRange(1, 3).Draw(t, "chunks")}
		n.OutputKey = key
		if cfg.Paradigms {
			n.Para = paras[rapid.IntRange(0, len(paras)-1).Draw(t, "para")]
		}
		return n
	}
	sp := &Spec{Mode: []string{"pregel", "dag"}[rapid.IntRange(0, 1).Draw(t, "twoJoinsMode")], In: "M", Out: "M"}
	sp.Nodes = append(sp.Nodes, NodeSpec{Key: "s", Kind: "pass", In: "M"}, lambda("p", "M"), lambda("j1", "M"), lambda("j2", "M"))
	sp.Edges = []Edge{{From: Start, To: "s"}, {From: Start, To: "p"}, {From: "s", To: "j1"}, {From: "s", To: "j2"}, {From: "p", To: "j1"}, {From: "p", To: "j2"}, {From: "j1", To: End}, {From: "j2", To: End}}
	if rapid.Bool().Draw(t, "thirdJoin") {
		sp.Nodes = append(sp.Nodes, lambda("j3", "M"))
		sp.Edges = append(sp.Edges, Edge{From: "s", To: "j3"}, Edge{From: "p", To: "j3"}, Edge{From: "j3", To: End})
	}
	return sp
}

// GenStateFan: 2-5 producers of one step that all work on the graph's state (ProcessState, pre- and post-handlers);
// one of them may fail inside its ProcessState handler (or, with preH, in its state pre-handler) - the others
// still get at the state, in whatever order they finish.
func GenStateFan(t *rapid.T, preH bool) *Spec {
	k := rapid.IntRange(2, 5).Draw(t, "stateFan")
	sp := &Spec{Mode: []string{"dag", "pregel", "workflow"}[rapid.IntRange(0, 2).Draw(t, "stateFanMode")], In: "S", Out: "M", State: true}
	for i := 0; i < k; i++ {
		n := NodeSpec{Key: fmt.Sprintf("s%d", i), Kind: "lambda", In: "S"}
		n.OutputKey = n.Key
		n.PS = rapid.IntRange(0, 3).Draw(t, "ps") > 0
		n.PostH = []string{"", "v", "s"}[rapid.IntRange(0, 2).Draw(t, "postH")]
		n.PreH = []string{"", "", "v", "s"}[rapid.IntRange(0, 3).Draw(t, "preH")]
		sp.Nodes = append(sp.Nodes, n)
		e := Edge{From: n.Key, To: End}
		if sp.Mode == "workflow" {
			e.ToKey = n.Key
			sp.Nodes[i].OutputKey = ""
		}
		sp.Edges = append(sp.Edges, Edge{From: Start, To: n.Key}, e)
	}
	if rapid.Bool().Draw(t, "stateFanFault") {
		fi := rapid.IntRange(0, k-1).Draw(t, "stateFanFaultNode")
		if preH && rapid.Bool().Draw(t, "stateFanPreH") {
			// the node's state pre-handler fails: the step's other nodes are either not started or waited for
			if sp.Nodes[fi].PreH == "" {
				sp.Nodes[fi].PreH = "v"
			}
			sp.Nodes[fi].Fault = "preherr"
		} else {
			sp.Nodes[fi].PS = true
			sp.Nodes[fi].Fault = "pspanic"
		}
	}
	return sp
}
