package gkit

import (
	"fmt"
	"sort"
)

// RefResult is what a reference model predicts for one run.
type RefResult struct {
	Out  any
	Fail string // "" | maxsteps | notasks | merge | inputkey | fault | sub:<class>
	// MaxSize: the largest total size (sizeOf) of the values delivered in one step of a pregel level
	MaxSize int
	Execs   []Exec // lambda executions in model order
	// Optional: executions (a sub-multiset of Execs) of nodes that do not lead to END in an
	// all-predecessor graph: the run may return before or after they start.
	Optional []Exec
	// OptionalNodes: tags of such nodes (graph nodes included; everything below them is optional too)
	OptionalNodes []string
	Steps         int

	// facts used to classify cases
	FanInSameStep  bool           // some node ran on >= 2 merged values
	MaxNodeRuns    int            // max executions of one node of this graph level (cycle iterations)
	BranchVaried   bool           // a branch took different decisions at two evaluations
	GraphNodeRan   bool           // a graph node executed
	Skipped        []string       // dag: nodes skipped (this level)
	Ran            []string       // dag: nodes that ran (this level)
	MixedPreds     bool           // dag: a node had both finished and skipped control predecessors
	Ambiguous      bool           // outcome depends on step timing the statement does not fix
	ExecsUncertain bool           // the run fails; which other nodes still ran is not fixed by the statement
	NodeRuns       map[string]int // per node path
	FaultTags      []string       // tags of fault-carrying lambdas that the model executed
	CancelSeen     bool           // a lambda with Fault == cancel executed
	// FailPath: when a graph node fails because the graph inside it fails by itself (step limit, no tasks,
	// merge), the path of the innermost such graph node.
	FailPath  string
	FailPaths []string // every candidate (same step)
	// Leftover: some produced value has no consumer (a node without successors ran, END was reached
	// while other nodes were scheduled too, a value was sent to a skipped node, or nodes that do not
	// lead to END exist) -- outside the domain of the leak property.
	Leftover bool
}

func (r *RefResult) absorb(sub *RefResult) {
	r.Execs = append(r.Execs, sub.Execs...)
	r.Optional = append(r.Optional, sub.Optional...)
	r.OptionalNodes = append(r.OptionalNodes, sub.OptionalNodes...)
	r.FanInSameStep = r.FanInSameStep || sub.FanInSameStep
	r.BranchVaried = r.BranchVaried || sub.BranchVaried
	r.MixedPreds = r.MixedPreds || sub.MixedPreds
	r.Ambiguous = r.Ambiguous || sub.Ambiguous
	r.ExecsUncertain = r.ExecsUncertain || sub.ExecsUncertain
	r.GraphNodeRan = true
	r.FaultTags = append(r.FaultTags, sub.FaultTags...)
	r.CancelSeen = r.CancelSeen || sub.CancelSeen
	r.Leftover = r.Leftover || sub.Leftover
	if sub.MaxNodeRuns > r.MaxNodeRuns {
		r.MaxNodeRuns = sub.MaxNodeRuns
	}
	if sub.MaxSize > r.MaxSize {
		r.MaxSize = sub.MaxSize
	}
	for k, v := range sub.NodeRuns {
		r.NodeRuns[k] += v
	}
}

// RefOpts tunes a reference run.
type RefOpts struct {
	MaxSteps int // per-call override of the top-level limit (0 = none)
}

// Ref evaluates the spec with the model that belongs to its mode.
func Ref(sp *Spec, path string, in any, o RefOpts) *RefResult {
	switch sp.Mode {
	case "pregel":
		return refPregel(sp, path, in, o)
	case "dag", "workflow":
		return refDAG(sp, path, in)
	case "chain":
		return refChain(sp, path, in)
	}
	panic("unknown mode " + sp.Mode)
}

// evalNode applies one node to its (already merged) input.
func evalNode(res *RefResult, n *NodeSpec, path string, in any) (any, string) {
	tag := path + n.Key
	res.NodeRuns[tag]++
	if (n.PreH == "v" || n.PreH == "s") && n.Kind != "pass" {
		if n.Fault == "preherr" && n.Kind == "lambda" {
			// the pre-handler runs first (before the input key is looked up) and fails: the body does not start
			res.FaultTags = append(res.FaultTags, tag)
			return nil, "fault"
		}
		in = PreValue(in)
	}
	x := in
	if n.InputKey != "" {
		m, _ := in.(map[string]any)
		v, ok := m[n.InputKey]
		if !ok {
			return nil, "inputkey"
		}
		x = v
		// the value under the key must have the node's parameter type
		if n.Kind == "lambda" || n.Kind == "graph" {
			want := n.In
			if n.Kind == "graph" {
				want = n.Sub.In
			}
			_, isS := x.(string)
			_, isM := x.(map[string]any)
			if (want == "S" && !isS) || (want == "M" && !isM) {
				return nil, "typemismatch"
			}
		}
	}
	var out any
	switch n.Kind {
	case "pass":
		out = x
	case "lambda":
		c := Canon(x)
		res.Execs = append(res.Execs, Exec{Node: tag, In: c})
		switch n.Fault {
		case "":
		case "cancel":
			res.CancelSeen = true
		default:
			res.FaultTags = append(res.FaultTags, tag)
			return nil, "fault"
		}
		ftag := tag
		if n.Alt {
			ftag = tag + "~"
		}
		out = F(ftag, n.Digest, c)
	case "graph":
		sub := Ref(n.Sub, tag+"/", x, RefOpts{})
		res.absorb(sub)
		if sub.Fail != "" {
			fp := tag
			if sub.FailPath != "" {
				fp = sub.FailPath
			}
			if res.FailPath == "" {
				res.FailPath = fp
			}
			// several graph nodes of one step may fail this way: which one the run reports is a matter of timing
			res.FailPaths = append(res.FailPaths, fp)
			res.FailPaths = append(res.FailPaths, sub.FailPaths...)
			return nil, "sub:" + sub.Fail
		}
		out = sub.Out
	default:
		panic("unknown node kind " + n.Kind)
	}
	if n.OutputKey != "" {
		out = map[string]any{n.OutputKey: out}
	}
	if n.PostH != "" && n.Kind != "pass" {
		out = PostValue(out)
	}
	return out, ""
}

func mergeIn(vals []any) (any, string) {
	if len(vals) == 1 {
		return vals[0], ""
	}
	v, err := MergeMaps(vals)
	if err != nil {
		return nil, "merge"
	}
	return v, ""
}

// refPregel: lock-step supersteps as in the statement of C01.
func refPregel(sp *Spec, path string, in any, o RefOpts) *RefResult {
	res := &RefResult{NodeRuns: map[string]int{}}
	maxSteps := sp.MaxSteps
	if maxSteps == 0 {
		maxSteps = len(sp.Nodes) + 10
	}
	if o.MaxSteps > 0 {
		maxSteps = o.MaxSteps
	}
	lastSel := map[int]string{}
	inbox := map[string]map[string]any{}
	deliver := func(from string, v any) {
		delivered := 0
		defer func() {
			if delivered == 0 {
				res.Leftover = true
			}
		}()
		put := func(to string) {
			if inbox[to] == nil {
				inbox[to] = map[string]any{}
			}
			inbox[to][from] = v
			delivered++
		}
		for _, e := range sp.Edges {
			if e.From == from {
				put(e.To)
			}
		}
		for bi := range sp.Branches {
			b := &sp.Branches[bi]
			if b.From != from {
				continue
			}
			sel := b.Select(Canon(v))
			s := fmt.Sprint(sel)
			if prev, ok := lastSel[bi]; ok && prev != s {
				res.BranchVaried = true
			}
			lastSel[bi] = s
			for _, t := range sel {
				put(t)
			}
		}
	}
	deliver(Start, in)
	for step := 0; ; step++ {
		// the values each scheduled node will run on
		merged := map[string]any{}
		keys := make([]string, 0, len(inbox))
		for k := range inbox {
			keys = append(keys, k)
		}
		sort.Strings(keys)
		for _, k := range keys {
			froms := make([]string, 0, len(inbox[k]))
			for f := range inbox[k] {
				froms = append(froms, f)
			}
			sort.Strings(froms)
			vals := make([]any, 0, len(froms))
			for _, f := range froms {
				vals = append(vals, inbox[k][f])
			}
			if len(vals) > 1 {
				res.FanInSameStep = true
			}
			v, fail := mergeIn(vals)
			if fail != "" {
				res.Fail = fail
				return res
			}
			merged[k] = v
		}
		// values that grow geometrically in a cycle (a parallel stage embedding its input several times, looped)
		// make the model itself take minutes: such cases are given up (Ambiguous: nothing is asserted, not run)
		big := 0
		for _, v := range merged {
			big += sizeOf(v, 1<<18)
		}
		if big > res.MaxSize {
			res.MaxSize = big
		}
		if big >= 1<<18 {
			res.Fail = "toobig"
			res.Ambiguous = true
			return res
		}
		if v, ok := merged[End]; ok {
			res.Out = v
			if len(merged) > 1 {
				res.Leftover = true
			}
			return res
		}
		if res.CancelSeen && path == "" {
			res.Fail = "canceled"
			return res
		}
		if step >= maxSteps {
			res.Fail = "maxsteps"
			return res
		}
		if len(merged) == 0 {
			res.Fail = "notasks"
			return res
		}
		res.Steps++
		inbox = map[string]map[string]any{}
		outs := map[string]any{}
		stepFails := map[string]bool{}
		firstFail := ""
		for _, k := range keys {
			n := sp.Node(k)
			out, fail := evalNode(res, n, path, merged[k])
			if c := res.NodeRuns[path+k]; c > res.MaxNodeRuns {
				res.MaxNodeRuns = c
			}
			if fail != "" {
				// every node of the step runs; which failure is reported first is a matter of timing
				stepFails[fail] = true
				if firstFail == "" {
					firstFail = fail
				}
				continue
			}
			outs[k] = out
		}
		if firstFail != "" {
			res.Fail = firstFail
			if len(stepFails) > 1 {
				res.Ambiguous = true
			}
			return res
		}
		for _, k := range keys {
			deliver(k, outs[k])
		}
	}
}

// refDAG: all-predecessor semantics as in the statement of C02 (also Workflows).
func refDAG(sp *Spec, path string, in any) *RefResult {
	res := &RefResult{NodeRuns: map[string]int{}}
	branchData := sp.Mode != "workflow"
	// topological order over all connections
	succ := map[string][]string{}
	indeg := map[string]int{}
	all := []string{}
	for i := range sp.Nodes {
		all = append(all, sp.Nodes[i].Key)
	}
	all = append(all, End)
	add := func(f, t string) {
		succ[f] = append(succ[f], t)
		indeg[t]++
	}
	for _, e := range sp.Edges {
		add(e.From, e.To)
	}
	for _, b := range sp.Branches {
		for _, t := range b.Targets {
			add(b.From, t)
		}
	}
	order := []string{}
	queue := []string{Start}
	seen := map[string]bool{}
	for len(queue) > 0 {
		sort.Strings(queue)
		k := queue[0]
		queue = queue[1:]
		if seen[k] {
			continue
		}
		seen[k] = true
		order = append(order, k)
		for _, t := range succ[k] {
			indeg[t]--
			if indeg[t] == 0 {
				queue = append(queue, t)
			}
		}
	}
	ran := map[string]bool{Start: true}
	out := map[string]any{Start: in}
	sel := map[int]map[string]bool{}
	evalBranches := func(from string) {
		for bi := range sp.Branches {
			b := &sp.Branches[bi]
			if b.From == from {
				sel[bi] = map[string]bool{}
				for _, t := range b.Select(Canon(out[from])) {
					sel[bi][t] = true
				}
			}
		}
	}
	evalBranches(Start)
	endFail := ""
	endDone := false
	failedNodes := map[string]string{}
	execSpan := map[string][2]int{}
	for _, k := range order {
		if k == Start {
			continue
		}
		routed := false
		nFinished, nSkipped := 0, 0
		cpred := map[string]bool{}
		for _, e := range sp.Edges {
			if e.To == k && !e.NoControl {
				cpred[e.From] = true
				if ran[e.From] {
					routed = true
				}
			}
		}
		for bi, b := range sp.Branches {
			for _, t := range b.Targets {
				if t == k {
					cpred[b.From] = true
					if ran[b.From] && sel[bi][k] {
						routed = true
					}
				}
			}
		}
		for p := range cpred {
			if ran[p] {
				nFinished++
			} else {
				nSkipped++
			}
		}
		if !routed {
			for _, e := range sp.Edges {
				if e.To == k && !e.NoData && ran[e.From] {
					res.Leftover = true
				}
			}
			if k != End {
				res.Skipped = append(res.Skipped, k)
			}
			if nFinished > 0 && nSkipped > 0 {
				res.MixedPreds = true
			}
			if k == End {
				endFail = "notasks"
			}
			continue
		}
		if nSkipped > 0 {
			res.MixedPreds = true
		}
		// data
		type dv struct {
			from string
			v    any
		}
		var dvs []dv
		have := map[string]bool{}
		for _, e := range sp.Edges {
			if e.To == k && !e.NoData && ran[e.From] && !have[e.From] {
				v := out[e.From]
				if e.FromKey != "" {
					m, _ := v.(map[string]any)
					v = m[e.FromKey]
				}
				if e.ToKey != "" {
					v = map[string]any{e.ToKey: v}
				}
				dvs = append(dvs, dv{e.From, v})
				have[e.From] = true
			}
		}
		if branchData {
			for bi, b := range sp.Branches {
				if ran[b.From] && sel[bi][k] && !have[b.From] {
					dvs = append(dvs, dv{b.From, out[b.From]})
					have[b.From] = true
				}
			}
		}
		sort.Slice(dvs, func(i, j int) bool { return dvs[i].from < dvs[j].from })
		var inV any
		if len(dvs) == 0 {
			inV = ZeroOf(sp.InType(k))
		} else {
			vals := make([]any, len(dvs))
			for i := range dvs {
				vals[i] = dvs[i].v
			}
			if len(vals) > 1 {
				res.FanInSameStep = true
			}
			v, fail := mergeIn(vals)
			if fail != "" {
				res.Fail = fail
				res.Ambiguous = true // whether END is assembled before this merge is attempted is a matter of step timing
				return res
			}
			inV = v
		}
		if k == End {
			res.Out = inV
			endDone = true
			continue
		}
		if n := sp.Node(k); n != nil && n.Static != "" {
			// a static value is part of the node's input in every run
			m := map[string]any{}
			if old, ok := inV.(map[string]any); ok {
				for kk, vv := range old {
					m[kk] = vv
				}
			}
			m[n.Static] = "static"
			inV = m
		}
		before := len(res.Execs)
		o, fail := evalNode(res, sp.Node(k), path, inV)
		execSpan[k] = [2]int{before, len(res.Execs)}
		if fail != "" {
			// the run fails; keep evaluating (successors count as not run) to learn which other failures
			// could be reported instead
			failedNodes[k] = fail
			continue
		}
		ran[k] = true
		res.Ran = append(res.Ran, k)
		out[k] = o
		if res.MaxNodeRuns < 1 {
			res.MaxNodeRuns = 1
		}
		evalBranches(k)
	}
	// a node that ran but whose value is delivered nowhere (only control-only connections leave it)
	for k := range ran {
		n := 0
		for _, e := range sp.Edges {
			if e.From == k && !e.NoData {
				n++
			}
		}
		if branchData {
			for bi, b := range sp.Branches {
				if b.From == k {
					n += len(sel[bi])
				}
			}
		}
		if n == 0 {
			res.Leftover = true
		}
	}
	// nodes that are not control ancestors of END may or may not have run when the run returns
	anc := map[string]bool{End: true}
	for changed := true; changed; {
		changed = false
		for _, e := range sp.Edges {
			if !e.NoControl && anc[e.To] && !anc[e.From] {
				anc[e.From] = true
				changed = true
			}
		}
		for _, b := range sp.Branches {
			for _, t := range b.Targets {
				if anc[t] && !anc[b.From] {
					anc[b.From] = true
					changed = true
				}
			}
		}
	}
	for k, span := range execSpan {
		if !anc[k] {
			res.Optional = append(res.Optional, res.Execs[span[0]:span[1]]...)
			res.OptionalNodes = append(res.OptionalNodes, path+k)
			res.Leftover = true
		}
	}
	if len(failedNodes) > 0 {
		classes := map[string]bool{}
		certain := false
		first := ""
		for _, k := range order {
			if f, ok := failedNodes[k]; ok {
				classes[f] = true
				if first == "" {
					first = f
				}
				if anc[k] {
					certain = true // END cannot be assembled without this node
				}
			}
		}
		res.Fail = first
		res.Out = nil
		res.ExecsUncertain = true
		if !certain || len(classes) > 1 {
			res.Ambiguous = true
		}
		return res
	}
	if !endDone {
		if endFail == "" {
			endFail = "notasks"
		}
		res.Fail = endFail
		res.Out = nil
	}
	return res
}

// refChain: sequential composition of stages (C01, last sentence).
func refChain(sp *Spec, path string, in any) *RefResult {
	res := &RefResult{NodeRuns: map[string]int{}}
	v := in
	for _, st := range sp.Stages {
		switch st.Kind {
		case "node":
			o, fail := evalNode(res, &st.Nodes[0], path, v)
			if fail != "" {
				res.Fail = fail
				return res
			}
			v = o
		case "parallel":
			vals := []any{}
			fails := map[string]bool{}
			for i := range st.Nodes {
				o, fail := evalNode(res, &st.Nodes[i], path, v)
				if fail != "" {
					fails[fail] = true
					if res.Fail == "" {
						res.Fail = fail
					}
					continue
				}
				vals = append(vals, o)
			}
			if res.Fail != "" {
				res.Ambiguous = res.Ambiguous || len(fails) > 1
				return res
			}
			m, err := MergeMaps(vals)
			if err != nil {
				res.Fail = "merge"
				return res
			}
			res.FanInSameStep = true
			v = m
		case "branch":
			b := Branch{Multi: st.Multi, Salt: st.Salt}
			for i := range st.Nodes {
				b.Targets = append(b.Targets, st.Nodes[i].Key)
			}
			sel := b.Select(Canon(v))
			if len(sel) == 0 {
				res.Fail = "notasks"
				return res
			}
			vals := []any{}
			fails := map[string]bool{}
			for i := range st.Nodes {
				for _, s := range sel {
					if s == st.Nodes[i].Key {
						o, fail := evalNode(res, &st.Nodes[i], path, v)
						if fail != "" {
							fails[fail] = true
							if res.Fail == "" {
								res.Fail = fail
							}
							continue
						}
						vals = append(vals, o)
					}
				}
			}
			if res.Fail != "" {
				res.Ambiguous = res.Ambiguous || len(fails) > 1
				return res
			}
			o, fail := mergeIn(vals)
			if fail != "" {
				res.Fail = fail
				return res
			}
			v = o
		}
		res.Steps++
	}
	res.Out = v
	return res
}

// FaultNode returns the lambda carrying a fault (nil if none), searching nested specs.
func FaultNode(sp *Spec) *NodeSpec {
	var found *NodeSpec
	var walk func(sp *Spec)
	each := func(n *NodeSpec) {
		if n.Fault != "" && found == nil {
			found = n
		}
		if n.Kind == "graph" && n.Sub != nil {
			walk(n.Sub)
		}
	}
	walk = func(sp *Spec) {
		for i := range sp.Nodes {
			each(&sp.Nodes[i])
		}
		for si := range sp.Stages {
			for i := range sp.Stages[si].Nodes {
				each(&sp.Stages[si].Nodes[i])
			}
		}
	}
	walk(sp)
	return found
}

// StreamFaultExpectation decides what a run in stream mode may do when a node delivers its
// failure as an error item on its output stream: if the node's output provably influences the
// result (perturbing the node function changes the model's outcome) the failure must surface;
// otherwise the stream may never be read and the run may equally end like the fault-free run.
func StreamFaultExpectation(sp *Spec, in any, o RefOpts) (mustFail bool, noFault *RefResult) {
	n := FaultNode(sp)
	if n == nil {
		return false, nil
	}
	saved := n.Fault
	n.Fault = ""
	a := Ref(sp, "", in, o)
	n.Alt = true
	b := Ref(sp, "", in, o)
	n.Alt = false
	n.Fault = saved
	if a.Fail != b.Fail || Canon(a.Out) != Canon(b.Out) {
		return true, a
	}
	return false, a
}

// IsOptionalTag reports whether tag (or an enclosing graph node) is in OptionalNodes.
func (r *RefResult) IsOptionalTag(tag string) bool {
	for _, t := range r.OptionalNodes {
		if tag == t || (len(tag) > len(t) && tag[:len(t)+1] == t+"/") {
			return true
		}
	}
	return false
}

// sizeOf estimates the size of a value (string bytes + map entries), stopping at limit.
func sizeOf(v any, limit int) int {
	switch x := v.(type) {
	case string:
		return len(x) + 1
	case map[string]any:
		n := 1
		for k, e := range x {
			n += len(k) + sizeOf(e, limit-n)
			if n >= limit {
				return n
			}
		}
		return n
	}
	return 1
}
