// Package vkit is the part of the verification harness that does not import
// eino: evidence recorder, failure records, known-findings lookup, replay
// files.  It is overlaid into the eino module at internal/vkit by
// /verif/run_check.py; it never exists on disk under /repo.
package vkit

import (
	"encoding/json"
	"fmt"
	"hash/fnv"
	"os"
	"runtime"
	"runtime/debug"
	"sort"
	"strings"
	"sync"
	"testing"
	"time"

	rapid "github.com/cloudwego/eino/internal/vrapid"
)

// Failure is what a check returns when the oracle is violated.
type Failure struct {
	Kind   string `json:"kind"`             // short class, e.g. "roundtrip-mismatch"
	Sig    string `json:"sig"`              // signature matched against known_findings.json
	Msg    string `json:"msg"`              // human readable
	Detail any    `json:"detail,omitempty"` // observed vs expected
}

func (f *Failure) Error() string { return f.Kind + ": " + f.Msg }

// Failf builds a Failure whose signature is the kind.
func Failf(kind, format string, a ...any) *Failure {
	return &Failure{Kind: kind, Sig: kind, Msg: fmt.Sprintf(format, a...)}
}

// Meta describes a generated case for the evidence file.
type Meta struct {
	NonTrivial bool
	Labels     []string
}

type knownFinding struct {
	Property string `json:"property"`
	ID       string `json:"id"`
	Status   string `json:"status"` // open | fixed
	Sig      string `json:"signature"`
	What     string `json:"what"`
	Commit   string `json:"commit,omitempty"`
}

var (
	knownOnce sync.Once
	knownOpen map[string]knownFinding // key property + "|" + sig
)

func loadKnown() {
	knownOpen = map[string]knownFinding{}
	p := os.Getenv("VERIF_KNOWN")
	if p == "" {
		return
	}
	b, err := os.ReadFile(p)
	if err != nil {
		return
	}
	var doc struct {
		Findings []knownFinding `json:"findings"`
	}
	if json.Unmarshal(b, &doc) != nil {
		return
	}
	for _, k := range doc.Findings {
		if k.Status == "open" {
			knownOpen[k.Property+"|"+k.Sig] = k
		}
	}
}

// Known reports whether (property, signature) is an open known finding.
func Known(prop, sig string) bool {
	knownOnce.Do(loadKnown)
	_, ok := knownOpen[prop+"|"+sig]
	return ok
}

// Recorder accumulates the evidence of one test process.
type Recorder struct {
	mu        sync.Mutex
	Prop      string
	out       string
	start     time.Time
	evals     int
	labels    map[string]int
	distinct  map[uint64]struct{}
	nontriv   map[uint64]struct{}
	samples   []json.RawMessage
	extra     map[string]int64
	excluded  map[string]int // known-finding signature -> count
	notes     []string
	maxSample int
}

// NewRecorder creates the recorder of property prop; output paths come from
// the environment (VERIF_OUT is a path prefix).
func NewRecorder(prop string) *Recorder {
	out := os.Getenv("VERIF_OUT")
	if out == "" {
		out = os.TempDir() + "/verif-" + prop
	}
	return &Recorder{Prop: prop, out: out, start: time.Now(), labels: map[string]int{},
		distinct: map[uint64]struct{}{}, nontriv: map[uint64]struct{}{}, extra: map[string]int64{},
		excluded: map[string]int{}, maxSample: 4}
}

func canon(c any) []byte {
	b, err := json.Marshal(c)
	if err != nil {
		return []byte(fmt.Sprintf("%#v", c))
	}
	return b
}

func hash(b []byte) uint64 {
	h := fnv.New64a()
	h.Write(b)
	return h.Sum64()
}

// Case records one evaluated case.
func (r *Recorder) Case(c any, m Meta) {
	b := canon(c)
	h := hash(b)
	r.mu.Lock()
	defer r.mu.Unlock()
	r.evals++
	for _, l := range m.Labels {
		r.labels[l]++
	}
	r.distinct[h] = struct{}{}
	if m.NonTrivial {
		if _, seen := r.nontriv[h]; !seen {
			r.nontriv[h] = struct{}{}
			if len(r.samples) < r.maxSample {
				if len(b) > 3000 {
					b, _ = json.Marshal(map[string]any{"truncated_case_json": string(b[:3000])})
				}
				r.samples = append(r.samples, json.RawMessage(b))
			}
		}
	}
}

// Add adds n to a named extra counter.
func (r *Recorder) Add(key string, n int64) {
	r.mu.Lock()
	r.extra[key] += n
	r.mu.Unlock()
}

// Note adds a free text line to the stats (deduplicated).
func (r *Recorder) Note(s string) {
	r.mu.Lock()
	defer r.mu.Unlock()
	for _, n := range r.notes {
		if n == s {
			return
		}
	}
	if len(r.notes) < 50 {
		r.notes = append(r.notes, s)
	}
}

// Excluded counts a case whose failure matched an open known finding.
func (r *Recorder) Excluded(sig string) {
	r.mu.Lock()
	r.excluded[sig]++
	r.mu.Unlock()
}

type failFile struct {
	Property string          `json:"property"`
	Case     json.RawMessage `json:"case"`
	Failure  *Failure        `json:"failure,omitempty"`
}

// WriteFail overwrites the fail file with (case, failure).  rapid re-runs the
// minimal example last, so after shrinking the file holds the minimal case.
func (r *Recorder) WriteFail(c any, f *Failure) {
	b, _ := json.MarshalIndent(failFile{Property: r.Prop, Case: canon(c), Failure: f}, "", " ")
	_ = os.WriteFile(r.out+".fail.json", b, 0o644)
}

// Current writes the case about to be executed, so that the driver can turn a
// dead test process into a replay file.
func (r *Recorder) Current(c any) {
	b, _ := json.Marshal(failFile{Property: r.Prop, Case: canon(c),
		Failure: &Failure{Kind: "process-died", Sig: "process-died", Msg: "the test process died while executing this case"}})
	_ = os.WriteFile(r.out+".current.json", b, 0o644)
}

// ClearCurrent removes the current-case file (case finished alive).
func (r *Recorder) ClearCurrent() { _ = os.Remove(r.out + ".current.json") }

// Flush writes the stats file.
func (r *Recorder) Flush() {
	r.mu.Lock()
	defer r.mu.Unlock()
	type stats struct {
		Property   string            `json:"property"`
		Evals      int               `json:"evaluations"`
		Distinct   []uint64          `json:"distinct_hashes"`
		NonTrivial []uint64          `json:"nontrivial_hashes"`
		Labels     map[string]int    `json:"labels"`
		Samples    []json.RawMessage `json:"samples"`
		Extra      map[string]int64  `json:"extra"`
		Excluded   map[string]int    `json:"excluded_known"`
		Notes      []string          `json:"notes"`
		WallS      float64           `json:"wall_s"`
	}
	s := stats{Property: r.Prop, Evals: r.evals, Labels: r.labels, Samples: r.samples, Extra: r.extra,
		Excluded: r.excluded, Notes: r.notes, WallS: time.Since(r.start).Seconds()}
	for h := range r.distinct {
		s.Distinct = append(s.Distinct, h)
	}
	for h := range r.nontriv {
		s.NonTrivial = append(s.NonTrivial, h)
	}
	sort.Slice(s.Distinct, func(i, j int) bool { return s.Distinct[i] < s.Distinct[j] })
	sort.Slice(s.NonTrivial, func(i, j int) bool { return s.NonTrivial[i] < s.NonTrivial[j] })
	b, _ := json.Marshal(s)
	_ = os.WriteFile(r.out+".stats.json", b, 0o644)
}

// Tier returns "quick" or "thorough".
func Tier() string {
	if os.Getenv("VERIF_TIER") == "thorough" {
		return "thorough"
	}
	return "quick"
}

// Thorough reports whether the thorough tier is running.
func Thorough() bool { return Tier() == "thorough" }

// Guard runs fn and converts a panic on this goroutine into a Failure.
func Guard(kind string, fn func() *Failure) (f *Failure) {
	defer func() {
		if p := recover(); p != nil {
			st := string(debug.Stack())
			if len(st) > 2500 {
				st = st[:2500]
			}
			f = &Failure{Kind: kind, Sig: kind, Msg: fmt.Sprintf("panic: %v", p), Detail: st}
		}
	}()
	return fn()
}

// Watchdog runs fn; if it has not returned after d the case is considered stuck: all goroutine
// stacks are captured, the fail file is written and the process exits (a stuck case cannot be
// shrunk).  The decision is only taken when a progress counter did not move during a second
// observation window.  progress may be nil.
func Watchdog(rec *Recorder, c any, d time.Duration, progress func() int64, fn func() *Failure) *Failure {
	done := make(chan *Failure, 1)
	go func() { done <- fn() }()
	timer := time.NewTimer(d)
	defer timer.Stop()
	select {
	case f := <-done:
		return f
	case <-timer.C:
	}
	var p0 int64
	if progress != nil {
		p0 = progress()
	}
	select {
	case f := <-done:
		return f
	case <-time.After(d / 3):
	}
	if progress != nil && progress() != p0 {
		// still moving: wait it out
		return <-done
	}
	buf := make([]byte, 1<<18)
	n := runtime.Stack(buf, true)
	f := &Failure{Kind: "no-progress", Sig: "no-progress", Msg: fmt.Sprintf("the case did not finish within %v and made no progress during another %v", d, d/3), Detail: string(buf[:n])}
	rec.WriteFail(c, f)
	fmt.Printf("VERIF-FAIL no-progress: case stuck, stacks written to the fail file\n")
	os.Exit(1)
	return f
}

// stuckAfter: a single case that has not returned after this long (twice: the decision is taken at the
// second expiry) is reported as a failure of the property under check ("the operation returns" is part of
// every oracle).  Cases take milliseconds; checks with a finer notion of progress use Watchdog themselves.
const stuckAfter = 150 * time.Second

func guarded[C any](rec *Recorder, c C, check func(C) (*Failure, Meta)) (*Failure, Meta) {
	type res struct {
		f *Failure
		m Meta
	}
	done := make(chan res, 1)
	go func() {
		f, m := check(c)
		done <- res{f, m}
	}()
	t := time.NewTimer(stuckAfter)
	defer t.Stop()
	select {
	case r := <-done:
		return r.f, r.m
	case <-t.C:
	}
	select {
	case r := <-done:
		return r.f, r.m
	case <-time.After(stuckAfter):
	}
	buf := make([]byte, 1<<18)
	n := runtime.Stack(buf, true)
	f := &Failure{Kind: "no-progress", Sig: "no-progress", Msg: fmt.Sprintf("the case did not return within %v", 2*stuckAfter), Detail: string(buf[:n])}
	rec.WriteFail(c, f)
	fmt.Printf("VERIF-FAIL no-progress: case stuck, stacks written to the fail file\n")
	os.Exit(1)
	return f, Meta{}
}

// Prop runs a rapid property: gen draws a case, check evaluates it.  Cases whose
// failure matches an open known finding are counted and skipped.
func Prop[C any](t *testing.T, rec *Recorder, gen func(*rapid.T) C, check func(C) (*Failure, Meta)) {
	t.Helper()
	defer rec.Flush()
	rapid.Check(t, func(rt *rapid.T) {
		c := gen(rt)
		f, m := guarded(rec, c, check)
		rec.Case(c, m)
		if f != nil {
			if Known(rec.Prop, f.Sig) {
				rec.Excluded(f.Sig)
				return
			}
			rec.WriteFail(c, f)
			rt.Fatalf("VERIF-FAIL %s sig=%s: %s", f.Kind, f.Sig, f.Msg)
		}
	})
}

// Replay reads the replay file named by VERIF_REPLAY and evaluates it with
// check (no rapid involved).  It is a no-op when VERIF_REPLAY is unset.
func Replay[C any](t *testing.T, prop string, check func(C) (*Failure, Meta)) {
	p := os.Getenv("VERIF_REPLAY")
	if p == "" {
		t.Skip("VERIF_REPLAY not set")
	}
	b, err := os.ReadFile(p)
	if err != nil {
		t.Skipf("cannot read replay: %v", err)
	}
	var ff failFile
	if err := json.Unmarshal(b, &ff); err != nil {
		t.Skipf("bad replay file: %v", err)
	}
	if ff.Property != prop {
		t.Skipf("replay is for %s", ff.Property)
	}
	var c C
	if err := json.Unmarshal(ff.Case, &c); err != nil {
		t.Skipf("replay case does not decode (harness changed?): %v", err)
	}
	reps := 1
	if os.Getenv("VERIF_REPLAY_REPS") != "" {
		fmt.Sscan(os.Getenv("VERIF_REPLAY_REPS"), &reps)
	}
	rec := NewRecorder(prop)
	hits := 0
	var last *Failure
	for i := 0; i < reps; i++ {
		f, _ := guarded(rec, c, check)
		if f != nil && !Known(prop, f.Sig) {
			hits++
			last = f
		}
	}
	fmt.Printf("REPLAY property=%s file=%s reps=%d hits=%d\n", prop, p, reps, hits)
	if last != nil {
		rec.WriteFail(c, last)
		t.Fatalf("VERIF-FAIL %s sig=%s: %s", last.Kind, last.Sig, last.Msg)
	}
}

// Short shortens a string for messages.
func Short(s string, n int) string {
	if len(s) <= n {
		return s
	}
	return s[:n] + "…(" + fmt.Sprint(len(s)) + ")"
}

// JoinSorted joins a copy of ss sorted.
func JoinSorted(ss []string, sep string) string {
	c := append([]string(nil), ss...)
	sort.Strings(c)
	return strings.Join(c, sep)
}
