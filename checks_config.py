# Configuration of the property checks: which harness directories are overlaid where,
# and for each property which test functions ("parts") decide it in which tier.

# harness/<dir>/*.go  ->  <repo>/<target>/zz_verif_<dir>_<file>
OVERLAY_DIRS = {
    "vkit": "internal/vkit",
    "gkit": "internal/gkit",
    "serialization": "internal/serialization",
    "compose_ext": "compose",
    "compose_int": "compose",
    "schema_ext": "schema",
    "schema_int": "schema",
    "internal_int": "internal",
    "react_ext": "flow/agent/react",
    "host_ext": "flow/agent/multiagent/host",
    "callbacks_int": "internal/callbacks",
}


def rapid_part(name, pkg, run, quick, thorough, shards=16, race=False, tags="", replay_test=None, **kw):
    d = dict(name=name, pkg=pkg, run=run, kind="rapid", race=race, tags=tags,
             quick=dict(checks=quick, shards=kw.pop("qshards", 1), timeout=kw.pop("qtimeout", 600)),
             thorough=dict(checks=thorough, shards=shards, timeout=kw.pop("ttimeout", 1500)))
    if replay_test:
        d["replay_test"] = replay_test
    d.update(kw)
    return d


def fuzz_part(name, pkg, run, fuzztime=90):
    return dict(name=name, pkg=pkg, run=run, kind="fuzz", tiers=["thorough"],
                thorough=dict(fuzztime=fuzztime, timeout=fuzztime + 240, parallel=8))


CHECKS = {
    "C12": dict(
        technique="property-based testing (rapid) of round-trip over a recursive type/value generator + native coverage-guided fuzzing of the same property",
        level_text="Generated-input search: tens of thousands (quick) to millions (thorough) of (type, value) pairs over the recursive universe of registered types are round-tripped through Marshal/Unmarshal and compared with a type-exact deep-equality oracle; failures shrink to a minimal (type, value) replay. Held on everything explored; no claim of absence. A graph part checks the last clause at graph level: generated interrupt/resume histories in which every resume happens on a freshly compiled runnable, so that only the bytes in the checkpoint store connect the calls, must equal the uninterrupted run (output, executions, state). A pending-stream part runs Stream histories over transform pipelines whose nodes may emit no chunk at all: an empty pending stream must come back empty, a non-empty one as its concatenation.",
        level_note="Trusts the harness' value builder and deep-equality; white-box entry points internal/serialization.Marshal/Unmarshal (overlay test in package serialization). One open known finding (pointer to nil pointer) is excluded position-wise from the comparison.",
        design_ref="DESIGN.md section 4 C12",
        rule="rapid draws a type from the recursive universe (all integer widths, floats, bool, valid UTF-8 strings, named basics, 6 registered "
             "structs incl. recursive list and interface fields, pointers depth 0-3 with nil at each level, slices/maps via reflect over (pointers to) "
             "registered element types, map keys of 12 registered comparable types, any/VNamer positions holding any such value) and a value of it; "
             "a case is non-trivial when its value tree has depth >= 3 and contains a pointer, a container and an interface position holding a "
             "struct/container/pointer; distinct = FNV-1a of the canonical case JSON ; graph part: non-trivial = the history has >= 2 interrupts ; pending part: non-trivial = a stream without chunks is pending at an interrupt point",
        assumptions=["reflect.DeepEqual-style comparison with nil==empty containers is the equality the statement means",
                     "outside the stated universe (NaN/Inf, complex, unregistered types) only 'no different value without an error' is asserted"],
        parts=[
            rapid_part("rapid", "internal/serialization", "TestC12", 40000, 1000000, replay_test="TestC12Replay"),
            fuzz_part("fuzz", "internal/serialization", "FuzzC12", 90),
            rapid_part("graph", "compose", "TestC12Graph", 1500, 96000, qshards=4, replay_test="TestC12GraphReplay", replay_reps=10),
            rapid_part("pending", "compose", "TestC12Empty", 3000, 200000, replay_test="TestC12EmptyReplay"),
        ],
    ),
}

GRAPH_ASSUME = ["node bodies are deterministic functions of their input (harness lambdas)",
                "values are strings and map[string]any with string leaves; typed fan-in of other types is not generated"]

CHECKS["C01"] = dict(
    technique="property-based testing (rapid): generated Pregel graphs and chains vs an independent superstep reference interpreter (model-based oracle)",
    level_text="Generated-input search over graph shapes (fan-out, fan-in by key, single/multi branches incl. empty selection, back edges, pass-through, nested graphs of pregel/dag/chain kind, step limits at compile and call time, chains with parallel/branch stages) and inputs; each run is compared with a reference interpreter written from the statement: same output or same failure class (max steps / nothing to run / merge failure / missing input key), same multiset and per-node sequence of node executions. Non-termination is converted into a counted failure by a per-node execution cap. Held on everything explored. A share of the cases compiles the graph object twice (first with another step limit, dropped) and judges the second runnable. A resume part runs generated interrupt/resume histories over any-predecessor graphs (Invoke calls) against the history oracle: a value sent before an interrupt is received in the step after the resume.",
    level_note="Trusts the harness builder (spec -> public Add*/Append* API) and the reference model gkit.Ref; node timing is irrelevant here (bodies are instantaneous, C03 owns schedules).",
    rule="rapid draws a GraphSpec by construction (typed nodes S/M, every node has a primary predecessor, extra fan-in/back edges/branches/joins) plus an input and a calling form; non-trivial = the model predicts >= 3 lambda executions and at least one of: two values merged in one step, a node executed >= 2 times (cycle), a branch deciding differently at two evaluations, a graph node executed, a chain with a parallel or branch stage; distinct = FNV-1a of the case JSON ; resume part: non-trivial = the history has >= 1 interrupt",
    assumptions=GRAPH_ASSUME,
    parts=[rapid_part("rapid", "compose", "TestC01", 6000, 480000, qshards=4, replay_test="TestC01Replay"),
           rapid_part("resume", "compose", "TestC01Resume", 1000, 64000, qshards=4, replay_test="TestC01ResumeReplay", replay_reps=10)],
)

CHECKS["C02"] = dict(
    technique="property-based testing (rapid): generated all-predecessor graphs and Workflows vs a reference DAG evaluator, with enumeration of all top-level branch outcome vectors; exhaustive small-scope enumeration of report sequences on one dagChannel (white-box)",
    level_text="Generated-input search over acyclic shapes in AllPredecessor graph mode and Workflow mode (control-only, data-only and combined dependencies, field mappings to map keys, single/multi branches incl. empty selection, converging branches, nested skips, nested graphs). Each run is compared with a reference evaluator written from the statement: which nodes ran (each at most once, with which input), the output, or the failure when END is skipped. For specs with <= 3 top-level branches every combination of branch outcomes is forced on the same compiled object. A white-box sub-check drives one dagChannel with every report sequence for up to 3 control x 2 data predecessors and compares readiness/skip/value set with a small reference. A directed generator adds joins reached by plain edges and through (forced) branches of several producers of one step. A resume part does the same for all-predecessor graphs and workflows: skips and finished predecessors survive interrupt and resume.",
    level_note="Nodes that do not lead to END may or may not have started when the run returns; their executions are accepted either way (the statement does not fix it). Merge failures whose visibility depends on step timing are skipped and counted (label ambiguous-skipped).",
    rule="rapid draws an acyclic GraphSpec (dag or workflow mode) by construction plus input and calling form; non-trivial = at least one node skipped and either a node with both finished and skipped control predecessors or a workflow with a control-only/data-only dependency; distinct = FNV-1a of case JSON; outcome vectors run are counted in extra.outcome_vectors_run ; resume part: non-trivial = the history has >= 1 interrupt",
    assumptions=GRAPH_ASSUME,
    exhaustive_part="TestC02ChannelEnum enumerates all report sequences for one dagChannel with <=3 control and <=2 data predecessors",
    parts=[rapid_part("rapid", "compose", "TestC02", 5000, 250000, qshards=4, replay_test="TestC02Replay"),
           rapid_part("resume", "compose", "TestC02Resume", 1000, 64000, qshards=4, replay_test="TestC02ResumeReplay", replay_reps=10),
           dict(name="channel-enum", pkg="compose", run="TestC02ChannelEnum", kind="plain", replay_test="TestC02ChannelReplay",
                quick=dict(timeout=300), thorough=dict(timeout=300))],
)

CHECKS["C04"] = dict(
    technique="property-based testing (rapid): 4-way differential between Invoke/Stream/Collect/Transform of one compiled object plus a reference model; generated native-paradigm subsets, chunk plans, stream branches, state handlers, field mappings, injected failures",
    level_text="Generated-input search over graphs of all four kinds (pregel, all-predecessor, workflow, chain) whose lambdas natively implement a generated non-empty subset of the four paradigms (all 15 subsets) with generated chunk plans incl. empty chunks; value and stream state handlers, stream branch conditions, input/output keys, workflow field mappings to map keys, nested graphs. The same compiled object is called through all four paradigms (inputs given whole or in a generated chunking); results (streams concatenated by an independent concatenation) must equal each other and the reference model, and an injected failure (error at call or error item mid-stream) must be reported by every paradigm. Held on everything explored. A typed part covers chunk types that are not joined like strings: pipelines over int, bool and maps with int / bool / float / string / nested-map leaves, every node with a generated subset of native paradigms and a generated chunking (earlier values, zeros among them, before the value); the expected result is the fold of the node functions, the reference concatenation is written from the documented rules. Injected stream failures may additionally wrap io.EOF.",
    level_note="Duplicate-key fan-ins (merge failure for values, silently concatenated for streams) are not generated and skipped if they arise: the statement does not fix them. any-typed node inputs are not generated (the framework has no concatenation for interface-typed chunks).",
    rule="rapid draws a GraphSpec with paradigm subsets/chunk plans/state/stream branches, an input, an input chunking and optionally a fault; non-trivial = >= 2 distinct native paradigm subsets among lambdas, a natively streaming producer with >= 2 chunks, >= 2 predicted executions and one of: fan-out, fan-in, stream branch, key wrapping, field mapping, state handler; distinct = FNV-1a of case JSON ; typed part: non-trivial = the framework itself has to concatenate a multi-chunk stream (a streaming node with >= 2 chunks followed by a node without Collect/Transform, or a node without Invoke/Collect)",
    assumptions=GRAPH_ASSUME,
    parts=[rapid_part("rapid", "compose", "TestC04", 3000, 180000, qshards=4, replay_test="TestC04Replay"),
           rapid_part("typed", "compose", "TestC04Typed", 8000, 320000, replay_test="TestC04TypedReplay")],
)

HIST_RULE = ("rapid draws a GraphSpec (pregel / all-predecessor / workflow, nested, optional state with handlers and ProcessState), interrupt-before and "
             "interrupt-after sets for every nesting level, nodes that ask for interrupt-and-rerun (with the documented pre-handler pattern), a cyclic list of call "
             "paradigms and of 'resume on a freshly compiled runnable' flags; the history is driven through a byte-only store until a call returns without interrupt; ")

CHECKS["C05"] = dict(
    technique="property-based testing (rapid) over interrupt/resume histories; metamorphic oracle: interrupted+resumed history == uninterrupted run (output, executions, state)",
    level_text="Generated histories: every interrupting call is followed by a resume (Invoke or Stream, same or freshly compiled runnable, byte-only checkpoint store) until the run completes. Oracle: final output equals that of the same graph compiled without interrupt configuration; the multiset (and in Pregel/invoke histories the per-node sequence) of (node, input) executions over all calls, minus aborted rerun attempts, equals the uninterrupted one; state counters equal. Failures shrink to a minimal graph + interrupt set + call list. Nested graphs are also run from inside a lambda node (compiled on their own, the lambda wraps their error with %w).",
    level_note="Only graphs whose uninterrupted run completes are asserted (others are counted and skipped). Nodes not leading to END in all-predecessor graphs are ignored in the comparison. The step budget is per call, as in the code.",
    rule=HIST_RULE + "non-trivial = >= 2 interrupts and one of: interrupt inside a nested graph, a rerun node, mixed paradigms across calls, a loop through an interrupt point or nested graph, fan-in with values parked in a channel; distinct = FNV-1a of case JSON",
    assumptions=GRAPH_ASSUME,
    parts=[rapid_part("rapid", "compose", "TestC05", 1500, 144000, qshards=4, replay_test="TestC05Replay", replay_reps=30)],
)

CHECKS["C06"] = dict(
    technique="property-based testing (rapid) over interrupt/resume histories; oracle: invariants over the recorded history (licence-to-run, stop-after, info completeness, checkpoint written iff interrupt)",
    level_text="The same generated histories as C05, judged by history invariants: an interrupt-before node never starts more often than earlier interrupts reported it (also as first node after START, behind branches, nested, in eager mode); when an interrupt-after node completes in an interrupted call the info lists it at the right nesting level and nothing consuming its output starts later in that call; every interrupt error yields InterruptInfo (state present for stateful graphs, rerun nodes listed); the store receives exactly one Set in a call that returns an interrupt with an id and none otherwise (also without id). A call that stops before the run is complete although no node fails, and returns an error that is not an interrupt, is reported (the interrupt was replaced by an error). Nested graphs are also run from inside a lambda node (compiled on their own, the lambda wraps their error with %w): their interrupts must still be reported as nested-graph interrupts.",
    level_note="Observation is through instrumented lambda bodies (start/end events with inputs/outputs); pass-through and graph nodes configured as interrupt points are exercised but only judged through the lambdas around them.",
    rule=HIST_RULE + "non-trivial = >= 1 interrupt with an honoured before/after point and one of: before-node directly after START, nested interrupt, workflow (eager) mode, graph with branches; distinct = FNV-1a of case JSON",
    assumptions=GRAPH_ASSUME,
    parts=[rapid_part("rapid", "compose", "TestC06", 1500, 144000, qshards=4, replay_test="TestC06Replay", replay_reps=10)],
)

CHECKS["C13"] = dict(
    technique="property-based testing (rapid) with fault injection: generated graphs x fault plans x paradigms; oracle = reference model says which injected failure executes + errors.Is/As/text/sentinel/cancellation contract + process survival",
    level_text="Generated-input search with injected faults: 1-3 lambdas (any nesting level, also several in one step) return a wrapped custom error, panic, deliver an error item or a panic on their output stream, or cancel the context; all four paradigms. When the reference model says an injected failure executes, the call must fail, errors.Is/As must recover the injected error of one of the failing nodes, the text must name its node path outer->inner->key, panics must be reported as errors; the step-limit sentinel and context.Canceled must be matchable with errors.Is. A panic that kills the test process is reported as a violation through the current-case file. A second part works on package schema directly: merges of 2-4 sources some of which are converted readers / copy children whose convert function panics at a generated item index (0-13, i.e. with the forwarding buffer empty, partly filled or full) with a lagging reader; per panicking source exactly the items before the panic, then one error item mentioning the panic, must arrive, then EOF. A step-limit failure inside a nested graph must name exactly the path of that graph node. Tool calls: a ToolsNode with one panicking tool (called, but not first; its gate opened last so that the node is already waiting for its goroutines) must return an error, under -race. Stream-forwarding goroutines: a schema-level sub-check merges copied/converted sources of which some panic inside their forwarding goroutine and requires the panic as an error item on the merged stream. A quarter of the injected failures additionally wrap io.EOF (a failure all the same). A third of the calls carry a logging error callback that formats every error it is shown, at every nesting level.",
    level_note="For failures that travel on a stream in stream-mode paradigms only survival/return is asserted here (whether such a stream is read is decided by C04's influence analysis). Node path naming is not asserted below chain levels (chain node keys are generated by the framework).",
    rule="rapid draws a GraphSpec (all modes, nested, paradigm subsets) and a fault plan; non-trivial = the model executes an injected failure and (it sits at nesting depth >= 1, or >= 2 failing nodes execute in the failing step, or the failure travels on a stream); distinct = FNV-1a of case JSON",
    assumptions=GRAPH_ASSUME,
    parts=[rapid_part("rapid", "compose", "TestC13", 4000, 320000, qshards=4, replay_test="TestC13Replay"),
           rapid_part("tools", "compose", "TestC13Tools", 1200, 30000, race=True, replay_test="TestC13ToolsReplay", replay_reps=3),
           rapid_part("forwarder", "schema", "TestC13Forwarder", 1500, 64000, shards=8, replay_test="TestC13ForwarderReplay", replay_reps=5)],
)

CHECKS["C08"] = dict(
    technique="model-based property testing (rapid) of stream operation histories: generated reader forests (Pipe/array, Copy, Merge, Convert) x send/recv/close histories, online reference model per (reader, source); sequential and concurrent execution under the race detector",
    level_text="Generated histories over generated reader forests: pipes of capacity 0-4 and array sources; Copy(2-4), MergeStreamReaders of 2-7 readers (static select and reflect.Select), StreamReaderWithConvert (map / drop via ErrNoValue / fail) nested to any depth, also derived in the middle of a history; sends of values and error items, closeSend, recv, close of any leaf. Every received item is checked online against a model that tracks, per (reader, source), the last sequence number seen: no loss, no duplication, no reordering, right value through the converts on the path, EOF only after every source below ended, copy siblings agree item by item, a writer is told 'closed' only after (and soon after) every derived reader was closed, nothing panics, nothing stays blocked once every reader is closed. One quarter of the cases run with one goroutine per reader/writer and generated yields; the whole check runs under -race. Convert functions also return the no-value mark wrapped in another error.",
    level_note="The Go scheduler is not owned: interleavings inside peek/close are sampled through yields, not enumerated. Closing one reader twice and merging two readers that share a source are outside the contract / the oracle and are not generated. 'Blocked forever' is decided after a 20 s grace period with all readers closed (state dump attached).",
    rule="rapid draws sources, derivations and a history (3-40 ops); non-trivial = the forest contains a copy and a merge or convert, >= 3 receives happened, and one of: a copy closed before a sibling finished, a merge of >= 6 sources, a send after all readers closed, a derivation in mid-history; distinct = FNV-1a of case JSON",
    assumptions=["single owner per reader (no concurrent Recv/Close on one reader)", "values are ints tagged with source and sequence number"],
    parts=[rapid_part("rapid", "schema", "TestC08", 6000, 240000, race=True, replay_test="TestC08Replay", replay_reps=20)],
)

CHECKS["C14"] = dict(
    technique="property-based testing (rapid) + native fuzzing of algebraic laws of chunk concatenation: totality, determinism, input immutability, re-chunking (prefix-then-rest == all-at-once), plus a small reference for text / tool-call merge",
    level_text="Generated chunk lists (2-8 chunks) of chat messages with every field generated incl. absent/zero (role, name, tool call id, content, multi content, tool-call fragments with nil/0..2 index and partial id/type/name/arguments/extra, response meta with each sub-field nil or set, extras with string/int/float/bool/nil/typed-nil/nested-map/slice values), nil messages, message lists (sparse, equal and unequal lengths), strings, map[string]any, a struct with and one without registered concat function, ints; every split point. Checked through schema.ConcatMessages, schema.ConcatMessageStream and internal.ConcatItems: never a panic; two evaluations on equal inputs agree and leave the inputs untouched; concat(concat(prefix)::rest) equals concat(all) or both fail; on success Content and per-index Arguments are the in-order joins, un-indexed tool calls keep arrival order before indexed ones sorted by index. A stream part sends 1-1300 string or map chunks (lengths also drawn around powers of two) through the framework's own stream concatenation (Invoke over a stream-only node, Collect into an invoke-only node) and compares with the reference concatenation.",
    level_note="Pure functions: no schedule involved. Empty chunk lists are not generated (the stream drain handles them before concatenation).",
    rule="rapid draws a chunk kind, 2-8 chunks and a split point (70% of message lists keep role/name/ids consistent so that concatenation succeeds); non-trivial = >= 3 chunks, split point strictly inside (prefix >= 2 chunks) and, for messages, tool-call fragments on >= 2 indices or a nested extra map; distinct = FNV-1a of case JSON ; stream part: non-trivial = >= 3 chunks",
    assumptions=["reflect.DeepEqual on the resulting messages is the equality meant by 'same result'"],
    parts=[rapid_part("rapid", "schema", "TestC14", 30000, 600000, replay_test="TestC14Replay"),
           fuzz_part("fuzz", "schema", "FuzzC14", 90),
           rapid_part("stream", "compose", "TestC14Stream", 1500, 60000, replay_test="TestC14StreamReplay")],
)

CHECKS["C20"] = dict(
    technique="property-based testing (rapid) over Add*/Append*/Compile call sequences for Graph, Chain and Workflow builders; oracle = no panic + reference well-formedness predicate (one direction) + sticky error + identical outcome over 5 replays + immutability/unaffected runnable after Compile",
    level_text="Generated call sequences (3-25 calls) over the three builders with keys from a pool containing reserved, duplicate and unknown keys, every violation kind of the statement at any position (reserved/unknown/duplicate keys, duplicate edges, END as source / START as target, missing entry or exit, single-target branches, state handler without state, node-key option outside chains, parallel/branch misuse in chains, trigger-mode and step-limit options in the wrong mode, cycles in all-predecessor mode), further Add*/Compile calls after a successful Compile, the whole sequence replayed 5 times on fresh builders. No call may panic; a sequence containing a listed violation must have produced an error by the end of Compile; after the first failing Add* everything fails; the index of the first failing call and Compile's success are identical in all replays; after a successful Compile every Add* on a Graph fails and the first runnable answers three sample inputs exactly as before, also after a second Compile. State handlers without state are generated in all four forms (pre, post, stream pre, stream post) and pre+post together. Compile options include WithNodeTriggerMode(AnyPredecessor), which a Chain or Workflow must reject.",
    level_note="The well-formedness reference is used in one direction only (violation => error); nothing is asserted about sequences it considers fine. Type inference of pass-through nodes is C07's business and not asserted here beyond determinism.",
    rule="rapid draws a builder kind, optional state and a call sequence; non-trivial = >= 6 calls and either the sequence compiled or its first failing call is not among the first two; the evidence histogram lists the violation kinds hit; distinct = FNV-1a of case JSON",
    assumptions=["all lambdas are string->string (map->string after a parallel) so that type mismatches do not mask construction errors"],
    parts=[rapid_part("rapid", "compose", "TestC20", 6000, 240000, qshards=4, replay_test="TestC20Replay")],
)

CHECKS["C07"] = dict(
    technique="property-based testing (rapid) over typed construction sequences with dynamic values; oracle = reference walk of dynamic types (assignability via reflect) with violations reported only on dynamic evidence",
    level_text="Generated pipelines over a universe of 9 types (string, int, struct, pointer, map, slice, any, fmt.Stringer, a user interface; the pointer implements both interfaces, the struct one) with lambdas of every (in,out) pair, pass-through nodes typed by inference (one or several hops), typed branch conditions (also on START and on pass-through nodes), typed state pre-handlers, connections added in a generated order, roughly half of the cases containing a deliberate mismatch, and dynamic values of every type for interface-typed positions. If Add*/Compile accept the graph it is run (Invoke or Stream): the run must succeed exactly when every dynamic value is assignable to the position it reaches; a failure at a position whose producer is declared with a concrete type is an unsound acceptance; a mismatch behind an interface-typed producer must surface as an ordinary error, not a recovered panic; nothing may panic out of the run.",
    level_note="Violations are only reported with dynamic evidence (a run that fails or panics), so a reference that is stricter than the framework's static rules cannot raise an alarm. nil interface values are judged by a separate signature.",
    rule="rapid draws graph types, 1-6 nodes (lambda / pass-through), optional branches and pre-handlers, an order for the Add* calls, dynamic values and the calling form; non-trivial = the graph compiled and contains a pass-through typed by inference or a may-assignable connection exercised by a value; distinct = FNV-1a of case JSON",
    assumptions=["reflect.Type.AssignableTo is the meaning of 'assignable'"],
    parts=[rapid_part("rapid", "compose", "TestC07", 8000, 1200000, qshards=4, replay_test="TestC07Replay")],
)

CHECKS["C15"] = dict(
    technique="property-based testing (rapid) of Workflow field mappings against an independent reflect-based path get/set reference; overlap predicate with permuted declaration orders; Invoke vs Stream differential",
    level_text="Generated mapping sets (1-5 mappings, paths of depth <= 3 from tables over structs, pointers, maps, map-of-struct, map-of-pointer and any-holes; whole->field, field->whole, field->field) from two predecessors into one successor, declared in a generated order, reversed and rotated, in one AddInput call per predecessor or one call per mapping; source values with interface positions holding every dynamic type incl. nil and typed nil. Overlapping target sets must be rejected by Compile in every order tried. For accepted overlap-free sets the successor's actual input is compared with a reference built by an independent get/set over reflect values (everything else zero, nil==empty), on two Invokes and one Stream, and the sources must be unchanged; where the reference cannot evaluate a mapping on the given input (missing key, nil on the way, non-assignable dynamic type) the run must return an ordinary error. Any panic out of Compile/Invoke/Stream is a violation. A quarter of the cases add the successor with WithOutputKey.",
    level_note="Acceptance itself is asserted only for overlaps (the direction the statement fixes); sets the framework rejects are counted, not judged. Stream mode delivers each source as a single chunk.",
    rule="rapid draws source/target type, a source value and 1-5 mappings from the path tables (including unknown/unexported fields and mismatching types); non-trivial = >= 2 mappings and a path of depth >= 2 in an accepted set, or an overlapping set with >= 2 mappings; distinct = FNV-1a of case JSON",
    assumptions=["nil and empty containers are considered equal when comparing the successor's input with the reference"],
    parts=[rapid_part("rapid", "compose", "TestC15", 6000, 1200000, qshards=4, replay_test="TestC15Replay")],
)

CHECKS["C16"] = dict(
    technique="property-based testing (rapid) against a reference option router: generated nested graphs with mixed component types x generated call options (undesignated, designated to nodes / paths, misuse kinds, designated callbacks) x sequential and concurrent calls",
    level_text="Generated nested graphs (Graph and Workflow levels, depth <= 3) with lambdas of two option types, lambdas without options and a document-transformer component; calls carrying 0-5 options each: undesignated component options of each type, options designated to a node, to a nested path or to a graph node, to an unknown node, to a path below a non-graph node, with a wrong option type, and designated callback handlers. Every instrumented node records the option values it received (tagged with the call id). Oracle: a reference router written from the statement gives, per node, the ordered list of values it must receive, and the calls that must fail; equality is required for every node, no value of another call may appear (2-3 calls per case, concurrently in a third of the cases), a designated callback must fire at its node and nowhere outside it. A second part addresses tools nodes: 1-4 WithToolsNodeOption(WithToolOption(...)) groups per call, undesignated or designated (key, nested path, sub-graph node, unknown node), Invoke and Stream; the tool must receive the values of every group addressed to its node, in order. A quarter of the cases interrupt a nested graph before one of its nodes and let the RESUMING call carry the options: what runs in the resumed call must receive exactly what the router says, and a misuse met by a graph level that runs again must fail the call. A sixth of the graph levels consist of option-less lambdas only.",
    level_note="Designating a graph node is modelled as addressing the nodes of the option's type inside that graph. Tools-node and chat-model options are not generated (their routing goes through the same extractOption code path; their delivery to tools is C17's business).",
    rule="rapid draws the node tree and the calls; non-trivial = nesting depth >= 1, >= 3 component kinds, at least one option designated to a path of length >= 2 and one undesignated option; distinct = FNV-1a of case JSON",
    assumptions=["all values of one WithLambdaOption call share a type (documented precondition)"],
    parts=[rapid_part("rapid", "compose", "TestC16", 5000, 750000, qshards=4, replay_test="TestC16Replay"),
           rapid_part("tools", "compose", "TestC16Tools", 4000, 200000, replay_test="TestC16ToolsReplay")],
)

CHECKS["C10"] = dict(
    technique="property-based testing (rapid) with recording callback handlers: generated graphs x handler supply plans x gated parallel nodes released in generated orders x handler stream behaviours; oracle = exact-once pairing per (handler, unit) derived from the reference model + payload equality + designated-handler isolation; run under the race detector",
    level_text="Generated graphs (pregel / all-predecessor / workflow, nested) whose top-level lambdas are gated so that parallel nodes overlap and finish in a generated order; handlers are supplied globally (0-2), per call in 0-4 WithCallbacks options with 1-3 handlers each (the slice capacities this produces are the point), and designated to lambda nodes at any nesting level; full handlers and HandlerBuilder handlers for value timings only; Invoke and Stream; every handler reads its stream copy fully, reads a prefix and closes, or closes at once. Units (the run, graph nodes, lambda executions with input and output) come from the reference model. For every full handler that applies to a unit: exactly one start-type and one end-type event carrying the unit's name, value payloads (and fully read stream payloads) equal the unit's input/output; designated handlers are invoked for their node only; the run's result equals the reference whatever handlers do with their copies. Built with -race. Tool calls are units too: a second part runs a graph around a ToolsNode and requires that a handler passed with the call and a handler registered globally each see every tool call exactly once at its start and once at its end. A components part covers units that fire their own callbacks (ChatTemplate, lambdas declaring callbacks enabled) and handlers with any subset of start / end / error functions (TimingChecker): each function a handler has runs exactly once for the matching outcome of every executed unit, and a failing unit's error is reported as such, not as a recovered panic. A third of the cases keep all handlers of a call in one array and pass sub-slices of it to the options, so that every slice has spare capacity that belongs to its neighbours.",
    level_note="Only clean runs are judged (failing or timing-dependent runs are counted and skipped). Tool-call units are exercised in C17. Parallel overlap is produced by gates and observed (label gated-bodies-overlapped); the interleaving inside the framework is the Go scheduler's.",
    rule="rapid draws a GraphSpec, paradigm, handler supply plan and release order; non-trivial = (>= 2 designated handlers on top-level nodes, >= 2 gated bodies observed waiting at the same time, per-call handlers in >= 2 options) or (Stream paradigm with a full handler closing its copy early and >= 2 executions); distinct = FNV-1a of case JSON ; components part: non-trivial = some handler lacks one of the three functions and the failing unit fires its own callbacks",
    assumptions=GRAPH_ASSUME,
    parts=[rapid_part("rapid", "compose", "TestC10", 1500, 96000, race=True, replay_test="TestC10Replay", replay_reps=5),
           rapid_part("tools", "compose", "TestC10Tools", 1000, 30000, race=True, replay_test="TestC10ToolsReplay", replay_reps=3),
           rapid_part("components", "compose", "TestC10Components", 4000, 160000, race=True, replay_test="TestC10ComponentsReplay")],
)

CHECKS["C11"] = dict(
    technique="property-based testing (rapid) with a mutual-exclusion monitor and read-yield-write counters inside every state callback, gated parallel nodes, concurrent runs, under the race detector; reference model for values and invocation counts; interrupt/resume histories with a StateModifier",
    level_text="Part A: generated stateful graphs (all modes; nested graphs with own state and without, the latter working on the enclosing state; value and stream pre/post handlers; ProcessState inside bodies) whose top-level lambdas are gated so that state accesses of parallel nodes overlap, 1-3 concurrent runs of the same compiled object. Every state callback runs inside a monitor and does read - yield - write on a counter. Oracle: the monitor never sees two callbacks inside at once; every counter equals the number of invocations predicted by the reference model (no lost update); per node the state log repeats pre -> body -> post; the output and executions equal the reference with the handlers' value transformations applied (what they return is what flows); the state generator ran once per run plus once per execution of a nested stateful graph; no state object is seen by two runs. Part B: the interrupt/resume histories of C05 with a StateModifier on every resume: state counters at the end equal the uninterrupted ones plus exactly one modifier edit per resume. Built with -race. A shared-lambda part adds one Lambda value to several nodes (of one graph, a nested graph, a graph compiled later), each with its own handlers: output and handler sequence must equal the fold of every node's own handlers.",
    level_note="Overlap of state accesses is produced by gates and observed (label gated-bodies-overlapped); interleavings inside the framework are the Go scheduler's. Nested stateful graphs executed more than once per run are checked through the generator count and the monitor only (their earlier state objects are gone).",
    rule="rapid draws a stateful GraphSpec, paradigm, release order, yield count and number of concurrent runs; non-trivial = >= 2 gated bodies observed waiting at once or a nested stateful graph; distinct = FNV-1a of case JSON ; shared part: non-trivial = some lambda value is used by >= 2 nodes whose handler sets differ",
    assumptions=GRAPH_ASSUME,
    parts=[rapid_part("rapid", "compose", "TestC11", 1500, 96000, race=True, replay_test="TestC11Replay", replay_reps=5),
           rapid_part("resume", "compose", "TestC11Resume", 1500, 48000, qshards=4, race=False, replay_test="TestC11ResumeReplay", replay_reps=10),
           rapid_part("shared", "compose", "TestC11Shared", 4000, 160000, race=True, replay_test="TestC11SharedReplay")],
)

CHECKS["C17"] = dict(
    technique="property-based testing (rapid) of the tools node with gated tools released in a generated completion order; oracle = reference answer list by call index, stream joined position-wise, error contract via errors.Is/As, per-call callback units; under the race detector",
    level_text="Generated tool sets (3-5 tools: invokable-only, streamable-only, both; 1-4 chunks) and call lists (1-6 calls, repeated tools, unknown names) with every tool call blocked at a gate keyed by its tool call id and released in a generated order after all calls are observed waiting, so that completion order is owned by the harness; failing tools (error at call, error item mid-stream, panic), unknown-tool handler present or absent; standalone Invoke/Stream and inside a graph under Invoke/Stream/Collect/Transform. Oracle: N calls give N tool messages, the i-th with the i-th call's id and the named tool's output on that call's arguments (or the unknown-tool handler's answer); the streamed form joined position-wise equals the same list; a failing tool fails the call and errors.Is/As recover an error of a failing call; a panicking tool inside a graph becomes an error; unknown name without handler is an error; a recording handler sees exactly one start and one end per tool call carrying the tool's name. Built with -race. A third of the tools honour their context (they return ctx.Err() if a cancellation arrives): nobody cancels the caller's context, so the reported failure must still be the failing tool's own error. A third of the failures additionally wrap io.EOF.",
    level_note="A panic of the first (inline) tool call in a standalone ToolsNode.Invoke escapes to the caller by design of the statement (only the enclosing run is promised to fail); it is counted, not judged.",
    rule="rapid draws tools, calls, handler presence, embedding, paradigm and completion order; non-trivial = >= 3 calls including a repeated tool, completion order different from call order, >= 2 tool kinds; distinct = FNV-1a of case JSON",
    assumptions=["tool outputs are a deterministic function of (tool name, arguments)"],
    parts=[rapid_part("rapid", "compose", "TestC17", 3000, 120000, race=True, replay_test="TestC17Replay", replay_reps=3)],
)

CHECKS["C18"] = dict(
    technique="property-based testing (rapid) of the ReAct agent against a reference ReAct loop: generated model scripts, chunkings, tool sets, return-directly sets, step limits; Generate vs Stream differential",
    level_text="Generated model scripts (0-4 assistant turns with 0-3 tool calls each and content), streamed in a generated chunking (tool calls in the first non-empty chunk for the default detector; also after content with a whole-stream detector), invokable or streamable tools, return-directly subsets, MaxStep 0 (default) or 1-8, optional MessageModifier. A scripted model records a snapshot of every input it is given; tools record (tool, arguments, call id). Oracle: a reference loop written from the statement: number of model calls, the exact history given to every model call, the multiset of tool invocations, the final answer (first assistant message without tool calls, or the result of the first return-directly call), or the step-limit error when the loop needs more supersteps than allowed; checked for Generate and for the concatenated Stream. Half of the configured MessageModifiers build their result inside the slice they are given (append and shift) instead of a new one.",
    level_note="The default streaming tool-call detector's documented precondition is respected by construction. Unknown tool names are C17's business.",
    rule="rapid draws script, chunkings, tools, return-directly set, MaxStep, modifier; non-trivial = (>= 2 model turns and a turn with >= 2 tool calls) or (a return-directly hit after a normal turn) or the step limit reached; distinct = FNV-1a of case JSON",
    assumptions=["the model mock answers the k-th call of a run with the k-th script entry"],
    parts=[rapid_part("rapid", "flow/agent/react", "TestC18", 3000, 600000, qshards=4, replay_test="TestC18Replay")],
)

CHECKS["C09"] = dict(
    technique="property-based testing (rapid) of concurrent use under the race detector: generated compiled objects (graphs of all kinds, ReAct agent, host multi-agent) x N concurrent callers x mixed paradigms; oracle = single-run reference per call + isolation of per-call data + race reports classified by stack frames",
    level_text="Generated graphs of every kind (state with handlers and ProcessState, branches, nesting, native paradigm subsets), the ReAct agent (with and without return-directly tools, MessageModifier, streamed model output), the host multi-agent a graph around a ToolsNode (some calls passing their own tool list with the WithToolList call option) and a Workflow whose node input (struct, pointer or map) is assembled by field mappings are each compiled once and then called from 2-8 goroutines x 1-3 calls with distinct inputs, the calling paradigms mixed, a start barrier and yields inside node bodies. Oracle: every call's result (and executed (node,input) multiset, model histories, tool invocations) equals what the reference model / reference loop gives for that call alone; a per-call callback handler sees exactly its own call; no state object is seen by two calls; everything is built with -race and a race report whose accesses lie in non-harness frames of the eino module is a violation (reports confined to harness frames make the run inconclusive). In the ReAct part half of the cases pass one shared agent option (compose options from a slice with spare capacity) plus a per-call tool option tagged with the call; every tool invocation must see exactly its own call's tag.",
    level_note="The race detector judges executed interleavings only; absence of a report is weak evidence. The Go scheduler is not owned.",
    rule="rapid draws the object, worker and call counts, inputs and paradigms; non-trivial = >= 3 calls on an object with state, branches or nesting (graphs) / on an agent with a non-empty script; distinct = FNV-1a of case JSON",
    assumptions=GRAPH_ASSUME,
    parts=[rapid_part("graphs", "compose", "TestC09", 600, 12500, race=True, replay_test="TestC09Replay", replay_reps=5),
           rapid_part("react", "flow/agent/react", "TestC09React", 400, 7500, race=True, replay_test="TestC09ReactReplay", replay_reps=5),
           rapid_part("host", "flow/agent/multiagent/host", "TestC09Host", 400, 7500, race=True, replay_test="TestC09HostReplay", replay_reps=5),
           rapid_part("tools", "compose", "TestC09Tools", 500, 10000, race=True, replay_test="TestC09ToolsReplay", replay_reps=5),
           rapid_part("wfmapping", "compose", "TestC09Workflow", 400, 8000, race=True, replay_test="TestC09WorkflowReplay", replay_reps=5),
           rapid_part("resume", "compose", "TestC09Resume", 600, 12000, race=True, replay_test="TestC09ResumeReplay", replay_reps=5)],
)

CHECKS["C19"] = dict(
    technique="property-based testing (rapid): generated graphs x real Pipe producers x early-close points x handler behaviours; oracle = goroutine-dump fixed point (no goroutine created by the run stays blocked) + producer-side finished/closed observation",
    level_text="Generated graphs of every kind (nesting, fan-out/fan-in, stream branches that read one chunk and close, key mappings), with every node output stream and the caller's input stream produced by a real goroutine writing to a Pipe of capacity 0-2, lazy transformers, callback handlers that close their stream copies at once / after one chunk / after reading all (inline or in a goroutine); the caller reads 0,1,2 chunks and closes or reads to EOF. In scope = the reference model says the run reaches END with no produced value lacking a consumer. Oracle: after the caller's close every producer finished or saw closed, and every goroutine created during the case is gone; a violation is reported only at a fixed point (three consecutive dumps, same goroutines, all blocked on channel/select/sync waits), with the stacks; budget exhaustion without a fixed point is inconclusive and only counted. A ReAct part runs streamed agent calls whose tools stream through real pipes fed by producer goroutines (return-directly tools mostly configured and called); the caller reads a generated number of chunks and closes; every producer of the run must have returned shortly afterwards.",
    level_note="Which interleavings occur is left to the Go scheduler; a leak that needs a specific interleaving is found only if that interleaving happens.",
    rule="rapid draws the graph, input, paradigm, pipe capacity, laziness, read count and handler mode; non-trivial = in scope, >= 2 producers, an early close (caller, handler or prefix branch) and a graph with a branch, fan-in, nesting or fan-out; distinct = FNV-1a of case JSON ; react part: non-trivial = a return-directly tool was called and the caller closed while its producer still had pieces to send",
    assumptions=GRAPH_ASSUME,
    parts=[rapid_part("leaks", "compose", "TestC19", 400, 48000, qshards=8, replay_test="TestC19Replay", replay_reps=3),
           rapid_part("react", "flow/agent/react", "TestC19React", 3000, 300000, replay_test="TestC19ReactReplay")],
)

CHECKS["C03"] = dict(
    technique="property-based testing (rapid) over completion schedules: generated release orders of gated node bodies and generated yields at add-only hook points (build tag verif) of the task manager; oracles = reference model + metamorphic (any completion order gives the identity-order result) + history invariants over hook events",
    level_text="(a) white box: the task manager is driven directly (needAll and eager) with 1-3 batches of 1-8 tasks (gated, failing, panicking, with pre/post-processors), the gates opened in a generated order and 0-3 yields injected at each of nine hook points; history invariants: each task collected exactly once and only after its body returned, with its own output/error; waitAll returns exactly the outstanding set; num/list/channel drained at the end; per task submit -> returned -> pushed -> handoff -> received each once; synchronous-first-task rule; a stuck driver is detected by a no-progress watchdog. (b) black box: generated graphs of all kinds with parallel gated nodes are run under the identity release order and under generated permutations (with hook yields); output and executed (node,input) multiset equal the reference model and each other; the run returns only after every body feeding END returned; tasks of nodes feeding END are collected exactly once (hook events). Built with -race. A directed generator adds joins reached by plain edges and through branches of producers that finish in a generated order. A third of the graphs are stateful (handlers and ProcessState share one lock); a node may fail by panicking inside its ProcessState handler, and a directed scenario lets 2-5 producers of one step work on the state in a generated finishing order: the run must end with that failure, never hang.",
    level_note="The Go scheduler is not owned: interleavings inside the few instructions between hook points are sampled, not enumerated; the yields make the narrow windows likely, not certain.",
    rule="rapid draws batches/task kinds/release picks/yield table (white box) or graph, input, paradigm, release picks, yield table (black box); non-trivial = overflow list held >= 2 finished tasks or >= 3 gated bodies outstanding at once (white box) / >= 2 bodies overlapped and the release order differs from identity (black box); distinct = FNV-1a of case JSON",
    assumptions=GRAPH_ASSUME + ["hook points compiled in with -tags verif (add-only, MANIFEST.hooks)"],
    parts=[rapid_part("taskmanager", "compose", "TestC03TaskManager", 2000, 39000, race=True, tags="verif", replay_test="TestC03TaskManagerReplay"),
           rapid_part("graphs", "compose", "TestC03", 250, 3250, qshards=4, race=True, tags="verif", replay_test="TestC03Replay")],
)

# properties not claimed (with reason); everything else not in CHECKS is "not built yet"
NOT_APPLICABLE = {}

# commits in /repo that add build-tag guarded hooks
HOOK_COMMITS = ["16307db", "28e1cb0"]
