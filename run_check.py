#!/usr/bin/env python3
"""Driver for the property checks in /verif (see DESIGN.md section 2).

  ./run_check.py <id> --tier quick|thorough      run the check of one property
  ./run_check.py <id> --replay <file>            re-run one saved case (no generator involved)
  ./run_check.py --setup                         warm the build cache (MANIFEST.setup_cmd)

exit 0  property held on everything explored (KNOWN-FINDING lines possible)
exit 1  VIOLATION property=<id> replay=<path> printed
exit 2  inconclusive: build failure, timeout, worker death without evidence
"""
import argparse, glob, hashlib, json, os, re, shutil, subprocess, sys, time
from concurrent.futures import ThreadPoolExecutor

VERIF = os.path.dirname(os.path.abspath(__file__))
REPO = os.environ.get("VERIF_REPO", "/repo")
WORK = os.environ.get("VERIF_WORK", os.path.join(VERIF, "work"))
RAPID = "/root/go/pkg/mod/pgregory.net/rapid@v1.3.0"
DEFAULT_SEED = 20260101

sys.path.insert(0, VERIF)
from checks_config import CHECKS, OVERLAY_DIRS  # noqa: E402


def goenv():
    e = dict(os.environ)
    e.update(GOFLAGS="-mod=mod", GOPROXY="off", GOSUMDB="off", GOTOOLCHAIN="local", CGO_ENABLED=e.get("CGO_ENABLED", "1"))
    return e


def seed_value():
    try:
        s = int(os.environ.get("VERIF_SEED", "") or 0)
    except ValueError:
        s = 0
    if s == 0:
        s = DEFAULT_SEED
    return s


def write_overlay():
    """Overlay: harness files appear inside the eino module; /repo is not touched."""
    ov = {}
    for f in sorted(glob.glob(RAPID + "/*.go")):
        b = os.path.basename(f)
        if not b.endswith("_test.go"):
            ov[os.path.join(REPO, "internal/vrapid", b)] = f
    for d, target in OVERLAY_DIRS.items():
        for f in sorted(glob.glob(os.path.join(VERIF, "harness", d, "*.go"))):
            b = os.path.basename(f)
            ov[os.path.join(REPO, target, "zz_verif_" + d + "_" + b)] = f
    os.makedirs(WORK, exist_ok=True)
    path = os.path.join(WORK, "overlay.%d.json" % os.getpid())
    with open(path, "w") as fh:
        json.dump({"Replace": ov}, fh)
    return path


def build(cid, part, overlay):
    os.makedirs(os.path.join(WORK, "bin"), exist_ok=True)
    name = "%s-%s%s%s.test" % (cid, part["pkg"].replace("/", "_"), "-race" if part.get("race") else "", "-" + part["tags"] if part.get("tags") else "")
    out = os.path.join(WORK, "bin", name)
    cmd = ["go", "test", "-c", "-overlay=" + overlay, "-vet=off", "-o", out]
    if part.get("race"):
        cmd.append("-race")
    if part.get("tags"):
        cmd += ["-tags", part["tags"]]
    if part.get("kind") == "fuzz":
        # instrumented for coverage guidance
        cmd += ["-fuzz=" + part["run"]]
    cmd.append("./" + part["pkg"])
    t0 = time.time()
    p = subprocess.run(cmd, cwd=REPO, env=goenv(), stdout=subprocess.PIPE, stderr=subprocess.STDOUT, text=True)
    if p.returncode != 0:
        print("BUILD FAILED (inconclusive) for %s part %s:\n%s" % (cid, part["name"], p.stdout[-6000:]))
        return None
    return out, time.time() - t0


EINO_FRAME = re.compile(r"github\.com/cloudwego/eino/[^\s]*")


def eino_race(report):
    """A race report counts against eino when a frame of the racing accesses lies in a
    non-harness file of the module."""
    for blk in re.split(r"={18}", report):
        if "DATA RACE" not in blk:
            continue
        for m in re.finditer(r"^\s+(/\S+\.go):\d+", blk, re.M):
            f = m.group(1)
            if "/cloudwego/eino/" in f or f.startswith(REPO + "/"):
                if "zz_verif_" in f or "/internal/vrapid/" in f or "/internal/vkit/" in f or "/internal/gkit/" in f:
                    continue
                return blk.strip()
        # overlay files are reported under their /verif path; repo files under REPO
    return None


def run_part(cid, part, binpath, tier, seed, shard, replay=None):
    rd = os.path.join(WORK, "run", cid, "%s-%d" % (part["name"], shard))
    shutil.rmtree(rd, ignore_errors=True)
    os.makedirs(rd)
    env = goenv()
    env.update(VERIF_OUT=os.path.join(rd, "out"), VERIF_TIER=tier, VERIF_SEED=str(seed),
               VERIF_KNOWN=os.path.join(VERIF, "known_findings.json"), VERIF_SHARD=str(shard))
    env.pop("VERIF_REPLAY", None)
    cfg = part.get(tier, part.get("quick", {}))
    timeout = cfg.get("timeout", 900)
    args = [binpath, "-test.count=1", "-test.timeout=%ds" % (timeout + 60), "-rapid.nofailfile", "-rapid.shrinktime=%s" % cfg.get("shrinktime", "20s")]
    if replay:
        env["VERIF_REPLAY"] = replay
        env["VERIF_REPLAY_REPS"] = str(part.get("replay_reps", 1))
        args += ["-test.run", "^" + part["replay_test"] + "$", "-test.v"]
    elif part.get("kind") == "fuzz":
        args += ["-test.run", "^$", "-test.fuzz", "^" + part["run"] + "$", "-test.fuzztime", "%ds" % cfg.get("fuzztime", 60),
                 "-test.fuzzcachedir", os.path.join(rd, "fuzzcache"), "-test.parallel", str(cfg.get("parallel", 8))]
    else:
        args += ["-test.run", "^" + part["run"] + "$", "-test.v"]
        if part.get("kind", "rapid") == "rapid":
            s = (seed * 1000003 + shard * 7919 + 1) % (2 ** 63)
            if s == 0:
                s = 1
            args += ["-rapid.checks=%d" % cfg.get("checks", 1000), "-rapid.seed=%d" % s]
        if part.get("extra_args"):
            args += part["extra_args"]
    t0 = time.time()
    try:
        p = subprocess.run(args, cwd=rd, env=env, stdout=subprocess.PIPE, stderr=subprocess.STDOUT, text=True, timeout=timeout, errors="replace")
        out, rc, timed = p.stdout, p.returncode, False
    except subprocess.TimeoutExpired as e:
        out = (e.stdout or b"")
        if isinstance(out, bytes):
            out = out.decode("utf-8", "replace")
        rc, timed = -1, True
    with open(os.path.join(rd, "log.txt"), "w") as fh:
        fh.write(out)
    res = dict(part=part["name"], shard=shard, rc=rc, timed_out=timed, wall=time.time() - t0, rd=rd, out=out, stats=None, fail=None, race=None)
    sp = os.path.join(rd, "out.stats.json")
    if os.path.exists(sp):
        try:
            res["stats"] = json.load(open(sp))
        except Exception:
            pass
    fp = os.path.join(rd, "out.fail.json")
    cp = os.path.join(rd, "out.current.json")
    if rc != 0 and not timed:
        if os.path.exists(fp):
            res["fail"] = fp
        elif "DATA RACE" in out:
            blk = eino_race(out)
            if blk:
                rp = os.path.join(rd, "race.fail.json")
                cur = None
                if os.path.exists(cp):
                    cur = json.load(open(cp)).get("case")
                json.dump({"property": cid, "case": cur, "failure": {"kind": "data-race", "sig": "data-race", "msg": "race detector report with eino frames", "detail": blk[:6000]}}, open(rp, "w"), indent=1)
                res["fail"] = rp
            else:
                res["race"] = "harness-only"
        elif os.path.exists(cp) and ("panic:" in out or "fatal error:" in out or rc < 0 or rc == 2):
            d = json.load(open(cp))
            d["failure"]["detail"] = out[-4000:]
            json.dump(d, open(cp, "w"), indent=1)
            res["fail"] = cp
        elif part.get("kind") == "fuzz":
            # native fuzz crasher: testdata/fuzz/<Fuzz>/<hash>
            cr = glob.glob(os.path.join(rd, "testdata", "fuzz", "*", "*"))
            if cr:
                rp = os.path.join(rd, "fuzz.fail.json")
                json.dump({"property": cid, "case": {"fuzz_input_file": open(cr[0]).read()}, "failure": {"kind": "fuzz-crasher", "sig": "fuzz-crasher", "msg": out[-3000:]}}, open(rp, "w"), indent=1)
                res["fail"] = rp
    return res


def merge_evidence(cid, tier, seed, results, wall, violations, inconclusive, known_lines):
    cfg = CHECKS[cid]
    evals = 0
    distinct, nontriv = set(), set()
    labels, extra, excluded = {}, {}, {}
    samples, notes, parts = [], [], []
    for r in results:
        s = r.get("stats")
        parts.append(dict(part=r["part"], shard=r["shard"], rc=r["rc"], wall_s=round(r["wall"], 2), evaluations=(s or {}).get("evaluations", 0)))
        if not s:
            m = re.search(r"elapsed: .*execs: (\d+)", r.get("out") or "")
            continue
        evals += s.get("evaluations", 0)
        distinct.update(s.get("distinct_hashes") or [])
        nontriv.update(s.get("nontrivial_hashes") or [])
        for k, v in (s.get("labels") or {}).items():
            labels[k] = labels.get(k, 0) + v
        for k, v in (s.get("extra") or {}).items():
            extra[k] = extra.get(k, 0) + v
        for k, v in (s.get("excluded_known") or {}).items():
            excluded[k] = excluded.get(k, 0) + v
        for x in (s.get("samples") or []):
            if len(samples) < 5:
                samples.append(x)
        for n in (s.get("notes") or []):
            if n not in notes:
                notes.append(n)
    # native fuzz parts report executions in their log
    fuzz_execs = 0
    for r in results:
        if r["part"].startswith("fuzz"):
            ms = re.findall(r"execs: (\d+)", r.get("out") or "")
            if ms:
                fuzz_execs += int(ms[-1])
    cov = dict(evaluations=evals, distinct_cases=len(distinct), distinct_nontrivial=len(nontriv), rule=cfg["rule"],
               samples=samples, labels=dict(sorted(labels.items())), extra=extra, excluded_known=excluded, parts=parts,
               notes=notes, inconclusive_parts=inconclusive, known_findings=known_lines)
    if fuzz_execs:
        cov["native_fuzz_execs"] = fuzz_execs
    if cfg.get("exhaustive_part"):
        cov["exhaustive"] = False
        cov["exhaustive_subcheck"] = cfg["exhaustive_part"]
    ev = dict(property_id=cid, tier=tier, seed=seed, level="exploration", coverage=cov,
              assumptions=cfg.get("assumptions", []), wall_s=round(wall, 2), violations=violations)
    evdir = os.path.join(VERIF, "evidence")
    if os.environ.get("VERIF_NOEVIDENCE"):  # sensitivity runs against a scratch copy must not touch the real evidence
        evdir = os.path.join(WORK, "evidence")
    os.makedirs(evdir, exist_ok=True)
    tmp = os.path.join(evdir, cid + ".json.tmp")
    json.dump(ev, open(tmp, "w"), indent=1)
    os.replace(tmp, os.path.join(evdir, cid + ".json"))
    return os.path.join(evdir, cid + ".json")


def known_lines_for(cid):
    p = os.path.join(VERIF, "known_findings.json")
    out = []
    if os.path.exists(p):
        for k in json.load(open(p)).get("findings", []):
            if k.get("property") == cid and k.get("status") == "open":
                out.append("KNOWN-FINDING: property=%s %s [%s]" % (cid, k.get("what", ""), k.get("signature", "")))
    return out


def save_fail(cid, path):
    b = open(path, "rb").read()
    h = hashlib.sha1(b).hexdigest()[:12]
    d = os.path.join(WORK, "fail", cid)
    os.makedirs(d, exist_ok=True)
    dst = os.path.join(d, h + ".json")
    shutil.copyfile(path, dst)
    return dst


def check(cid, tier, replay=None):
    t0 = time.time()
    seed = seed_value()
    cfg = CHECKS[cid]
    overlay = write_overlay()
    try:
        parts = [p for p in cfg["parts"] if tier in p.get("tiers", ["quick", "thorough"])]
        bins = {}
        for part in parts:
            key = (part["pkg"], bool(part.get("race")), part.get("tags", ""), part["run"] if part.get("kind") == "fuzz" else "")
            if key not in bins:
                b = build(cid, part, overlay)
                if b is None:
                    return 2
                bins[key] = b[0]
            part["_bin"] = bins[key]
        violations, inconclusive, results = [], [], []
        # 1. regression tier: committed replays (and an explicit --replay)
        replays = sorted(glob.glob(os.path.join(VERIF, "replays", cid, "*.json")))
        if replay:
            replays = [os.path.abspath(replay)]
        for i, rp in enumerate(replays):
            try:
                kind = (json.load(open(rp)).get("failure") or {}).get("kind")
            except Exception:
                kind = None
            for part in parts:
                if not part.get("replay_test"):
                    continue
                if part.get("kind") == "fuzz":
                    continue
                r = run_part(cid, part, part["_bin"], tier, seed, 1000 + i, replay=rp)
                if "REPLAY property=" not in (r["out"] or ""):
                    continue  # not for this part
                if r["fail"]:
                    violations.append(save_fail(cid, r["fail"]) if not replay else rp)
                elif r["rc"] != 0 and "--- SKIP" not in r["out"]:
                    inconclusive.append("replay %s rc=%s" % (os.path.basename(rp), r["rc"]))
                    print(r["out"][-3000:])
                else:
                    sys.stdout.write("".join(l + "\n" for l in r["out"].splitlines() if l.startswith("REPLAY ")))
        if replay:
            for v in violations:
                print("VIOLATION property=%s replay=%s" % (cid, v))
            return 1 if violations else (2 if inconclusive else 0)
        # 2. generated search
        jobs = []
        for part in parts:
            c = part.get(tier, part.get("quick", {}))
            for sh in range(c.get("shards", 1)):
                jobs.append((part, sh))
        maxpar = int(os.environ.get("VERIF_PAR", "0") or 0) or (16 if tier == "thorough" else 6)
        with ThreadPoolExecutor(max_workers=maxpar) as ex:
            futs = [ex.submit(run_part, cid, part, part["_bin"], tier, seed, sh) for part, sh in jobs]
            for f in futs:
                results.append(f.result())
        for r in results:
            if r["fail"]:
                violations.append(save_fail(cid, r["fail"]))
            elif r["timed_out"]:
                inconclusive.append("%s/%d timed out after %.0fs" % (r["part"], r["shard"], r["wall"]))
            elif r["rc"] != 0:
                inconclusive.append("%s/%d rc=%s%s" % (r["part"], r["shard"], r["rc"], " (race report confined to harness frames)" if r["race"] else ""))
                print("---- output of %s/%d (rc=%s) ----\n%s" % (r["part"], r["shard"], r["rc"], (r["out"] or "")[-5000:]))
        kl = known_lines_for(cid)
        violations = sorted(set(violations))
        evpath = merge_evidence(cid, tier, seed, results, time.time() - t0, len(violations), inconclusive, kl)
        for l in kl:
            print(l)
        ev = json.load(open(evpath))["coverage"]
        print("%s tier=%s seed=%d evaluations=%d distinct_nontrivial=%d wall=%.1fs" % (cid, tier, seed, ev["evaluations"], ev["distinct_nontrivial"], time.time() - t0))
        if violations:
            for v in violations:
                try:
                    fl = json.load(open(v)).get("failure") or {}
                    print("  failure: %s: %s" % (fl.get("kind"), str(fl.get("msg"))[:600]))
                except Exception:
                    pass
                print("VIOLATION property=%s replay=%s" % (cid, v))
            return 1
        if inconclusive:
            print("INCONCLUSIVE: " + "; ".join(inconclusive))
            return 2
        return 0
    finally:
        try:
            os.remove(overlay)
        except OSError:
            pass


def setup():
    """Warm the build cache: build every test binary once (plain and -race)."""
    overlay = write_overlay()
    rc = 0
    seen = set()
    try:
        for cid, cfg in CHECKS.items():
            for part in cfg["parts"]:
                key = (part["pkg"], bool(part.get("race")), part.get("tags", ""), part.get("kind") == "fuzz")
                if key in seen or part.get("kind") == "fuzz":
                    continue
                seen.add(key)
                b = build(cid, part, overlay)
                if b is None:
                    rc = 2
                else:
                    print("built %s in %.1fs" % (os.path.basename(b[0]), b[1]))
    finally:
        os.remove(overlay)
    return rc


def main():
    ap = argparse.ArgumentParser()
    ap.add_argument("id", nargs="?")
    ap.add_argument("--tier", default=os.environ.get("VERIF_TIER", "quick"), choices=["quick", "thorough"])
    ap.add_argument("--replay")
    ap.add_argument("--setup", action="store_true")
    a = ap.parse_args()
    if a.setup:
        sys.exit(setup())
    if a.id not in CHECKS:
        print("unknown property id %r; known: %s" % (a.id, " ".join(sorted(CHECKS))))
        sys.exit(2)
    sys.exit(check(a.id, a.tier, a.replay))


if __name__ == "__main__":
    main()
