#!/usr/bin/env python3
"""Regenerates MANIFEST.json from checks_config.py (claimed checks) and NOT_APPLICABLE below."""
import json, os, sys
V = os.path.dirname(os.path.abspath(__file__))
sys.path.insert(0, V)
from checks_config import CHECKS, NOT_APPLICABLE, HOOK_COMMITS

props = [json.loads(l) for l in open(os.path.join(V, "properties.jsonl"))]
checks, na = [], []
for p in props:
    cid = p["id"]
    if cid in CHECKS:
        c = CHECKS[cid]
        checks.append(dict(
            property_id=cid,
            quick_cmd="./run_check.py %s --tier quick" % cid,
            thorough_cmd="./run_check.py %s --tier thorough" % cid,
            evidence_file="/verif/evidence/%s.json" % cid,
            replay_cmd_template="./run_check.py %s --replay {path}" % cid,
            engine="rapid+gofuzz" if any(pt.get("kind") == "fuzz" for pt in c["parts"]) else "rapid",
            level_claimed=dict(category="exploration", text=c["level_text"], design_ref=c.get("design_ref", "DESIGN.md section 4 " + cid)),
            level_note=c["level_note"],
            technique=c["technique"],
        ))
    else:
        na.append(dict(property_id=cid, reason=NOT_APPLICABLE.get(cid, "check not built yet in this session; planned (DESIGN.md section 4)")))
m = dict(
    version=1,
    setup_cmd="./run_check.py --setup",
    hooks=dict(
        guard="verif",
        enable="go test -tags verif (run_check.py passes it for the parts that need the hooks); harness code is added with -overlay, /repo is not modified by a check",
        baseline_off_cmd="cd /repo && go test -mod=mod -vet=off -count=1 -timeout 25m ./...",
        source_commits=HOOK_COMMITS,
        add_only=True,
    ),
    engines=[dict(name="rapid", path="/verif/run_check.py", serves_properties=sorted(CHECKS),
                  kind_free_text="property-based testing with pgregory.net/rapid v1.3.0 (sources overlaid from the module cache as internal/vrapid, so /repo/go.mod is untouched) ; properties with engine rapid+gofuzz additionally run Go native fuzzing of the same property function in the thorough tier; harness test files are overlaid into the eino packages")],
    checks=checks,
    notes="Every check rebuilds from /repo's working tree (VERIF_REPO overrides) through go's -overlay; exit 0/1/2 = held / VIOLATION / inconclusive. See DESIGN.md.",
    not_applicable=na,
)
json.dump(m, open(os.path.join(V, "MANIFEST.json"), "w"), indent=1)
print("claimed:", [c["property_id"] for c in checks])
