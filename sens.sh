#!/bin/bash
# sens.sh <property-id> <patch-file> [tier] : apply a patch to a scratch copy of /repo, run the
# property's check against the copy (VERIF_REPO), report whether it is detected, clean up.
# With BASELINE=1 also runs the repository's own test suite on the patched copy.
set -u
ID=$1; PATCH=$(readlink -f "$2"); TIER=${3:-quick}
S=$(mktemp -d /tmp/vsens.XXXXXX)
trap 'rm -rf "$S"' EXIT
rsync -a --exclude .git /repo/ "$S/repo/"
cd "$S/repo" && patch -p1 -s < "$PATCH" || { echo "PATCH-FAILED $PATCH"; exit 3; }
export GOFLAGS=-mod=mod GOPROXY=off GOSUMDB=off GOTOOLCHAIN=local
if [ "${BASELINE:-0}" = 1 ]; then
  if go test -vet=off -count=1 ./... > "$S/base.log" 2>&1; then echo "BASELINE-PASS"; else echo "BASELINE-FAIL"; grep -E "^(--- FAIL|FAIL)" "$S/base.log" | head; fi
fi
cd /verif
VERIF_REPO="$S/repo" VERIF_WORK="$S/work" VERIF_NOEVIDENCE=1 ./run_check.py "$ID" --tier "$TIER" > "$S/out.log" 2>&1
rc=$?
grep -E "^(VIOLATION|INCONCLUSIVE|BUILD FAILED|  failure:)" "$S/out.log" | cut -c1-400 | head -5
if [ -n "${KEEP_REPLAY:-}" ] && [ $rc = 1 ]; then
  f=$(grep -m1 '^VIOLATION' "$S/out.log" | sed 's/.*replay=//'); cp "$f" "$KEEP_REPLAY" 2>/dev/null
fi
echo "SENS id=$ID patch=$(basename "$PATCH") rc=$rc"
exit 0
