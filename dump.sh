#!/bin/bash
# dump.sh <prop> <replay-file>: print the interrupt/resume history of a replay (debug aid)
B=$(ls -t /verif/work/bin/$1-compose*.test | head -1)
cd /tmp && VERIF_DUMP_PROP=$1 VERIF_REPLAY=$2 VERIF_KNOWN=/verif/known_findings.json $B -test.run '^TestHistDump$' -test.v 2>&1 | grep -v "^=== \|^--- \|^PASS\|^ok" | head -${3:-80}
